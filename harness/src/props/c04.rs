//! C04 — ANSI files written by the engine parse back to the same picture.
use std::path::Path;

use icy_engine::{attribute, Buffer, ControlCharHandling, SaveOptions, ScreenPreperation, TextPane};
use serde::{Deserialize, Serialize};
use serde_json::{json, Value};

use crate::ctx::Ctx;
use crate::doc::{self, CellD, DocD};
use crate::mon::{guarded, Budgets, Outcome};
use crate::picture;
use crate::rng::Rng;
use crate::shrink::shrink_list;
use crate::Prop;

#[derive(Clone, Debug, Serialize, Deserialize, PartialEq)]
pub struct Opts {
    pub compress: bool,
    pub cursor_forward: bool,
    pub repeat: bool,
    pub preserve_line_length: bool,
    pub longer_terminal: bool,
    pub extended_colors: bool,
    pub save_sauce: bool,
    pub lossless: bool,
    /// 0 none 1 clear 2 home
    pub prep: u8,
    /// 0 ignore 1 icy term 2 filter out
    pub ctrl: u8,
}

impl Opts {
    fn from_index(i: u64) -> Self {
        Opts {
            compress: i & 1 != 0,
            cursor_forward: i & 2 != 0,
            repeat: i & 4 != 0,
            preserve_line_length: i & 8 != 0,
            longer_terminal: i & 16 != 0,
            extended_colors: i & 32 != 0,
            save_sauce: i & 64 != 0,
            lossless: i & 128 != 0,
            prep: ((i >> 8) % 3) as u8,
            ctrl: ((i >> 8) / 3 % 3) as u8,
        }
    }
    fn to_save(&self) -> SaveOptions {
        let mut o = SaveOptions::new();
        o.compress = self.compress;
        o.use_cursor_forward = self.cursor_forward;
        o.use_repeat_sequences = self.repeat;
        o.preserve_line_length = self.preserve_line_length;
        o.longer_terminal_output = self.longer_terminal;
        o.use_extended_colors = self.extended_colors;
        o.save_sauce = self.save_sauce;
        o.lossles_output = self.lossless;
        o.screen_preparation = match self.prep {
            1 => ScreenPreperation::ClearScreen,
            2 => ScreenPreperation::Home,
            _ => ScreenPreperation::None,
        };
        o.control_char_handling = match self.ctrl {
            1 => ControlCharHandling::IcyTerm,
            2 => ControlCharHandling::FilterOut,
            _ => ControlCharHandling::Ignore,
        };
        o
    }
    fn names(&self) -> Vec<&'static str> {
        let mut v = Vec::new();
        for (b, n) in [
            (self.compress, "compress"),
            (self.cursor_forward, "cuf"),
            (self.repeat, "rep"),
            (self.preserve_line_length, "preserve-len"),
            (self.longer_terminal, "longer-term"),
            (self.extended_colors, "ext-col"),
            (self.save_sauce, "sauce"),
            (self.lossless, "lossless"),
        ] {
            if b {
                v.push(n);
            }
        }
        v
    }
}

#[derive(Clone, Debug, Serialize, Deserialize)]
pub struct Case04 {
    pub doc: DocD,
    pub opts: Opts,
}

const CONTROL: [u32; 8] = [0x1b, 0x07, 0x08, 0x09, 0x0C, 0x7F, 0x0D, 0x0A];

fn run(case: &Case04) -> Option<(String, Value)> {
    let src = doc::build(&case.doc);
    let bytes = match src.to_bytes("ans", &case.opts.to_save()) {
        Ok(b) => b,
        Err(e) => return Some(("ans|save-error".into(), json!({"error": e.to_string()}))),
    };
    let got = match Buffer::from_bytes(Path::new("f.ans"), false, &bytes) {
        Ok(b) => b,
        Err(e) => return Some(("ans|load-error".into(), json!({"error": e.to_string()}))),
    };
    if case.opts.save_sauce && got.get_width() != src.get_width() {
        return Some(("ans|width-with-sauce".into(), json!({"saved": src.get_width(), "loaded": got.get_width()})));
    }
    if let Some((x, y, field, a, b)) = picture::first_difference(&src, &got, src.get_width(), src.get_height()) {
        let c = src.get_char((x, y));
        let c = if c.is_visible() { c } else { icy_engine::AttributedChar::default() };
        let attr = c.attribute;
        let mut feat: Vec<&str> = Vec::new();
        if attr.is_bold() {
            feat.push("bold");
        }
        if attr.is_blinking() {
            feat.push("blink");
        }
        if attr.attr & (attribute::FAINT | attribute::ITALIC | attribute::UNDERLINE | attribute::DOUBLE_UNDERLINE | attribute::CONCEAL | attribute::CROSSED_OUT) != 0 {
            feat.push("ext-attr");
        }
        let cls = |i: u32| if i < 8 { "lo" } else if i < 16 { "hi" } else { "ext" };
        let ch_cls = if CONTROL.contains(&(c.ch as u32)) { "control-char" } else if c.ch as u32 == 0 || c.ch as u32 == 255 || c.ch == ' ' { "blank-char" } else { "char" };
        let key = format!(
            "ans|{field}|ice{}|opts={}|prep{}|ctrl{}|{}|{}|fg-{}|bg-{}|{}|{}",
            case.doc.ice,
            case.opts.names().join("+"),
            case.opts.prep,
            case.opts.ctrl,
            picture::glyph_class(&src, &c),
            ch_cls,
            cls(attr.get_foreground()),
            cls(attr.get_background()),
            feat.join("+"),
            if x == src.get_width() - 1 { "last-col" } else if x == 0 { "first-col" } else { "mid" }
        );
        return Some((
            key,
            json!({"x": x, "y": y, "saved_cell": doc::describe_cell(&c), "loaded_cell": doc::describe_cell(&got.get_char((x, y))),
                   "saved_shows": format!("{a:?}"), "loaded_shows": format!("{b:?}"), "file": crate::stream::printable(&bytes)}),
        ));
    }
    None
}

fn gen(rng: &mut Rng, opts: &Opts) -> DocD {
    let w = if opts.save_sauce {
        match rng.usize(4) {
            0 => 80,
            1 => *rng.pick(&[1, 2, 79, 81, 132]),
            _ => rng.range(1, 132) as i32,
        }
    } else {
        80
    };
    let h = match rng.usize(5) {
        0 => 1,
        1 => *rng.pick(&[24, 25, 26, 60]),
        _ => 1 + rng.usize(8) as i32,
    };
    let mut d = DocD::single(w, h);
    d.ice = rng.usize(3) as u8;
    d.palette_mode = 0;
    // palette: DOS 16 + optionally xterm / rgb colours
    let extra = rng.chance(1, 2);
    let mut pal: Vec<(u8, u8, u8)> = (0..16).map(|i| icy_engine::DOS_DEFAULT_PALETTE[i].get_rgb()).collect();
    if extra {
        for _ in 0..(1 + rng.usize(6)) {
            if rng.bool() {
                // all 256 xterm colours: the first sixteen (system colours) differ from the DOS palette, e.g. (128,0,0) vs (170,0,0)
                pal.push(icy_engine::XTERM_256_PALETTE[if rng.chance(1, 3) { rng.usize(16) } else { 16 + rng.usize(240) }].1.get_rgb());
            } else {
                pal.push((rng.byte(), rng.byte(), rng.byte()));
            }
        }
        d.palette = Some(pal.clone());
    }
    let ncol = pal.len() as u32;
    let small = rng.chance(1, 2);
    let ext_attrs = rng.chance(1, 3);
    for y in 0..h {
        // row lengths: empty, full, one and two short of full (the writer's line-break rules look at exactly these), very
        // short, anything
        let len = match rng.usize(8) {
            0 => 0,
            1 | 2 => w,
            3 => (w - 1).max(0),
            4 => (*rng.pick(&[1, 2, w - 2])).clamp(0, w),
            _ => rng.range(0, w as i64) as i32,
        };
        let mut x = 0;
        while x < len {
            let ch = loop {
                let c = match rng.usize(if small { 3 } else { 8 }) {
                    0 => 0x20,
                    1 => *rng.pick(&[0x41u32, 0xDB, 0xB0, 0x42]),
                    2 => *rng.pick(&[0x20u32, 0x20, 0, 0xFF]),
                    3 => rng.below(32) as u32,
                    _ => rng.below(256) as u32,
                };
                // characters the chosen control-character handling cannot encode are outside the quantifier
                if CONTROL.contains(&c) && opts.ctrl != 1 {
                    continue;
                }
                break c;
            };
            let fg = if rng.chance(1, 8) { rng.below(ncol as u64) as u32 } else { rng.below(16) as u32 };
            let bg = match d.ice {
                2 => if rng.chance(1, 8) { rng.below(ncol as u64) as u32 } else { rng.below(16) as u32 },
                _ => if rng.chance(1, 8) { rng.below(ncol as u64) as u32 } else { rng.below(8) as u32 },
            };
            let mut attr = 0u16;
            if rng.chance(1, 5) && fg < 8 {
                attr |= attribute::BOLD;
            }
            if d.ice != 2 && rng.chance(1, 6) {
                attr |= attribute::BLINK;
            }
            if ext_attrs && rng.chance(1, 4) {
                attr |= *rng.pick(&[attribute::FAINT, attribute::ITALIC, attribute::UNDERLINE, attribute::DOUBLE_UNDERLINE, attribute::CROSSED_OUT, attribute::CONCEAL]);
            }
            let run = if rng.chance(1, 4) { 1 + rng.usize(12) as i32 } else { 1 };
            for _ in 0..run {
                if x < len {
                    d.layers[0].cells.push(CellD { x, y, ch, fg, bg, attr, fp: 0 });
                    x += 1;
                }
            }
        }
    }
    // the last row is not empty
    if !d.layers[0].cells.iter().any(|c| c.y == h - 1) {
        d.layers[0].cells.push(CellD { x: 0, y: h - 1, ch: 0x58, fg: 7, bg: 0, attr: 0, fp: 0 });
    }
    d
}

const N_OPTS: u64 = 256 * 9;

#[derive(Default)]
pub struct C04 {}

impl C04 {
    fn exec(&mut self, ctx: &mut Ctx, case: &Case04) {
        let c = case.clone();
        let (out, _m) = guarded(Budgets::default(), move || run(&c));
        let _ = crate::stream::wait_decodes_idle();
        ctx.count("round_trips", 1);
        ctx.count("cells_compared", (case.doc.w as u64) * (case.doc.h as u64));
        ctx.fp(crate::rng::mix(
            crate::rng::hash_str(&format!("{:?}", case.opts)),
            (case.doc.w as u64) << 48 | (case.doc.h as u64) << 40 | (case.doc.ice as u64) << 36 | crate::rng::hash_str(&format!("{:?}", case.doc.layers[0].cells.iter().take(5).map(|c| (c.ch, c.fg, c.bg, c.attr)).collect::<Vec<_>>())) >> 32,
        ));
        match out {
            Outcome::Done(res) => {
                if ctx.want_sample() && ctx.evaluations % 997 == 11 {
                    ctx.sample(json!({"size": [case.doc.w, case.doc.h], "ice": case.doc.ice, "options": case.opts, "cells": case.doc.layers[0].cells.len()}));
                }
                if let Some((key0, detail0)) = res {
                    let field = key0.split('|').nth(1).unwrap_or("").to_string();
                    let mut used = case.clone();
                    if !ctx.replay && ctx.seen(&key0) == 0 {
                        let same = |c: &Case04| run(c).map(|(k, _)| k.split('|').nth(1) == Some(field.as_str())).unwrap_or(false);
                        // options that are not needed for the failure
                        for i in 0..8 {
                            let mut c2 = used.clone();
                            match i {
                                0 => c2.opts.compress = false,
                                1 => c2.opts.cursor_forward = false,
                                2 => c2.opts.repeat = false,
                                3 => c2.opts.preserve_line_length = false,
                                4 => c2.opts.longer_terminal = false,
                                5 => c2.opts.extended_colors = false,
                                6 => c2.opts.save_sauce = c2.doc.w != 80,
                                _ => c2.opts.lossless = true,
                            }
                            if c2.opts != used.opts && same(&c2) {
                                used = c2;
                            }
                        }
                        for p in [0u8] {
                            let mut c2 = used.clone();
                            c2.opts.prep = p;
                            if same(&c2) {
                                used = c2;
                            }
                        }
                        let cells = shrink_list(&used.doc.layers[0].cells.clone(), 300, |cand| {
                            let mut c2 = used.clone();
                            c2.doc.layers[0].cells = cand.to_vec();
                            if !cand.iter().any(|c| c.y == used.doc.h - 1) {
                                return false;
                            }
                            same(&c2)
                        });
                        used.doc.layers[0].cells = cells;
                    }
                    let (key, detail) = run(&used).unwrap_or((key0, detail0));
                    ctx.violation(&format!("mismatch|{key}"), detail, serde_json::to_value(&used).unwrap());
                }
            }
            Outcome::Panicked(p) => ctx.panic_violation("ansi-roundtrip", &p, serde_json::to_value(case).unwrap()),
        }
    }
}

impl Prop for C04 {
    fn id(&self) -> &'static str {
        "C04"
    }
    fn rule(&self) -> &'static str {
        "single-layer buffers (width 80 without SAUCE, 1..=132 with SAUCE, height 1..=60; CP437 cells incl. NUL/0xFF and, with IcyTerm control handling, control codes; 16 DOS colours plus xterm-256 and RGB palette entries; bold, blink, faint/italic/underline/double underline/crossed out/concealed; rows of every length incl. empty, full width and one / two short of it, runs, non-empty last row) are written with Buffer::to_bytes(\"ans\") under every one of the 2^8 boolean option combinations (compress, cursor-forward, repeat, preserve line length, longer terminal, extended colours, SAUCE, lossless) x 3 screen preparations x 3 control-character modes (2304 configurations, cycled) x 3 ice modes, loaded with Buffer::from_bytes and compared cell by cell by what is shown: glyph bitmap, displayed foreground where the glyph has a foreground pixel, displayed background where it has a background pixel, blink where something can blink. Violations are shrunk over options and cells. distinct_nontrivial = distinct (option set, size, ice mode, leading cells)"
    }
    fn meta(&self, ctx: &Ctx) -> Value {
        json!({"floor_evaluations": 5000, "floor_distinct": ctx.tier.pick(5000u64, 100000u64),
               "assumptions": ["observational equality as in the statement ('shows', 'displayed'): a blank glyph has no foreground, a solid one no background", "UTF-8 'modern terminal' output is excluded"]})
    }
    fn total(&mut self, ctx: &Ctx) -> u64 {
        N_OPTS * ctx.tier.pick(24, 300)
    }
    fn run_case(&mut self, ctx: &mut Ctx, k: u64) {
        let mut rng = ctx.rng(k);
        let opts = Opts::from_index(k % N_OPTS);
        let case = Case04 { doc: gen(&mut rng, &opts), opts };
        ctx.begin(k);
        self.exec(ctx, &case);
    }
    fn replay(&mut self, ctx: &mut Ctx, case: &Value) {
        let c: Case04 = serde_json::from_value(case.clone()).expect("c04 case");
        ctx.begin(0);
        self.exec(ctx, &c);
    }
}
