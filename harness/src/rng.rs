//! Deterministic generator: SplitMix64 seeding + xoshiro256**. No time, no addresses.

#[derive(Clone, Debug)]
pub struct Rng {
    s: [u64; 4],
}

fn splitmix(x: &mut u64) -> u64 {
    *x = x.wrapping_add(0x9E37_79B9_7F4A_7C15);
    let mut z = *x;
    z = (z ^ (z >> 30)).wrapping_mul(0xBF58_476D_1CE4_E5B9);
    z = (z ^ (z >> 27)).wrapping_mul(0x94D0_49BB_1331_11EB);
    z ^ (z >> 31)
}

pub fn hash_str(s: &str) -> u64 {
    // FNV-1a 64
    let mut h: u64 = 0xcbf2_9ce4_8422_2325;
    for b in s.as_bytes() {
        h ^= *b as u64;
        h = h.wrapping_mul(0x100_0000_01b3);
    }
    h
}

pub fn hash_bytes(s: &[u8]) -> u64 {
    let mut h: u64 = 0xcbf2_9ce4_8422_2325;
    for b in s {
        h ^= *b as u64;
        h = h.wrapping_mul(0x100_0000_01b3);
    }
    h
}

pub fn mix(a: u64, b: u64) -> u64 {
    let mut x = a ^ b.wrapping_mul(0x9E37_79B9_7F4A_7C15).rotate_left(23);
    splitmix(&mut x)
}

impl Rng {
    pub fn new(seed: u64) -> Self {
        let mut x = seed;
        let s = [splitmix(&mut x), splitmix(&mut x), splitmix(&mut x), splitmix(&mut x)];
        Rng { s }
    }

    /// generator for case `k` of property `prop`
    pub fn for_case(seed: u64, prop: &str, tier: &str, k: u64) -> Self {
        Rng::new(mix(mix(mix(seed, hash_str(prop)), hash_str(tier)), k))
    }

    pub fn next_u64(&mut self) -> u64 {
        let result = self.s[1].wrapping_mul(5).rotate_left(7).wrapping_mul(9);
        let t = self.s[1] << 17;
        self.s[2] ^= self.s[0];
        self.s[3] ^= self.s[1];
        self.s[1] ^= self.s[2];
        self.s[0] ^= self.s[3];
        self.s[2] ^= t;
        self.s[3] = self.s[3].rotate_left(45);
        result
    }

    pub fn next_u32(&mut self) -> u32 {
        (self.next_u64() >> 32) as u32
    }

    /// uniform in 0..n (n > 0)
    pub fn below(&mut self, n: u64) -> u64 {
        if n <= 1 {
            return 0;
        }
        // multiply-shift, bias negligible for our n
        ((self.next_u64() as u128 * n as u128) >> 64) as u64
    }

    pub fn usize(&mut self, n: usize) -> usize {
        self.below(n as u64) as usize
    }

    /// uniform in lo..=hi
    pub fn range(&mut self, lo: i64, hi: i64) -> i64 {
        if hi <= lo {
            return lo;
        }
        lo + self.below((hi - lo + 1) as u64) as i64
    }

    pub fn bool(&mut self) -> bool {
        self.next_u64() & 1 == 1
    }

    /// true with probability num/den
    pub fn chance(&mut self, num: u64, den: u64) -> bool {
        self.below(den) < num
    }

    pub fn pick<'a, T>(&mut self, v: &'a [T]) -> &'a T {
        &v[self.usize(v.len())]
    }

    pub fn byte(&mut self) -> u8 {
        (self.next_u64() >> 56) as u8
    }

    pub fn bytes(&mut self, n: usize) -> Vec<u8> {
        (0..n).map(|_| self.byte()).collect()
    }
}
