//! Observational comparison of pictures: what a cell *shows*.
use icy_engine::{AttributedChar, Buffer, TextPane};

/// what one cell shows on the screen
#[derive(Clone, Debug, PartialEq)]
pub struct Shown {
    /// glyph bitmap (None when the font or glyph does not exist)
    pub glyph: Option<Vec<u8>>,
    /// displayed foreground, only if the glyph has a foreground pixel
    pub fg: Option<(u8, u8, u8)>,
    /// displayed background, only if the glyph has a background pixel
    pub bg: Option<(u8, u8, u8)>,
    /// blink state, only if something can blink (glyph has a foreground pixel)
    pub blink: Option<bool>,
}

pub fn displayed_fg(buf: &Buffer, c: &AttributedChar) -> (u8, u8, u8) {
    let fg = c.attribute.get_foreground();
    let fg = if c.attribute.is_bold() && fg < 8 { fg + 8 } else { fg };
    buf.palette.get_rgb(fg)
}

pub fn shown(buf: &Buffer, c: &AttributedChar) -> Shown {
    let glyph = buf.get_font(c.get_font_page()).and_then(|f| f.get_glyph(c.ch)).map(|g| g.data.clone());
    let (has_fg, has_bg) = match &glyph {
        Some(g) => (g.iter().any(|b| *b != 0), g.iter().any(|b| *b != 0xFF)),
        None => (false, true),
    };
    let visible = c.is_visible();
    Shown {
        glyph: if visible { glyph } else { None },
        fg: if has_fg && visible { Some(displayed_fg(buf, c)) } else { None },
        bg: if has_bg && visible { Some(buf.palette.get_rgb(c.attribute.get_background())) } else { None },
        blink: if has_fg && visible { Some(c.attribute.is_blinking()) } else { None },
    }
}

/// first cell whose shown picture differs; cells outside a buffer count as the default blank
pub fn first_difference(a: &Buffer, b: &Buffer, w: i32, h: i32) -> Option<(i32, i32, &'static str, Shown, Shown)> {
    for y in 0..h {
        for x in 0..w {
            let ca = if x < a.get_width() && y < a.get_height() { a.get_char((x, y)) } else { AttributedChar::default() };
            let cb = if x < b.get_width() && y < b.get_height() { b.get_char((x, y)) } else { AttributedChar::default() };
            let ca = if ca.is_visible() { ca } else { AttributedChar::default() };
            let cb = if cb.is_visible() { cb } else { AttributedChar::default() };
            let (sa, sb) = (shown(a, &ca), shown(b, &cb));
            if sa != sb {
                let field = if sa.glyph != sb.glyph {
                    "glyph"
                } else if sa.fg != sb.fg {
                    "foreground"
                } else if sa.bg != sb.bg {
                    "background"
                } else {
                    "blink"
                };
                return Some((x, y, field, sa, sb));
            }
        }
    }
    None
}

/// classes used in cause keys
pub fn glyph_class(buf: &Buffer, c: &AttributedChar) -> &'static str {
    match buf.get_font(c.get_font_page()).and_then(|f| f.get_glyph(c.ch)) {
        None => "no-glyph",
        Some(g) => {
            if g.data.iter().all(|b| *b == 0) {
                "blank-glyph"
            } else if g.data.iter().all(|b| *b == 0xFF) {
                "solid-glyph"
            } else {
                "mixed-glyph"
            }
        }
    }
}
