#!/usr/bin/env python3
"""tools/seedkit/prompt.py <PROP> <variants, e.g. ef>  -> prompt text for a fresh sub-agent.
The prompt contains the property record, the scratch worktree path and one-line summaries of the changes
earlier sub-agents already wrote for this property (so that new ones differ) - nothing else from /verif."""
import json, glob, os, sys
prop, variants = sys.argv[1], sys.argv[2]
V = os.path.dirname(os.path.dirname(os.path.dirname(os.path.abspath(__file__))))
rec = [json.loads(l) for l in open(os.path.join(V, "properties.jsonl")) if l.strip()]
rec = [r for r in rec if r["id"] == prop][0]
used = []
for d in sorted(glob.glob(os.path.join(V, "seeded", prop + "?"))):
    m = json.load(open(os.path.join(d, "meta.json")))
    used.append("- " + ", ".join(m["files"]) + ": " + m["summary"])
vs = " and ".join(f"OUT/{v}/" for v in variants)
print(f"""You are helping to evaluate a verification effort for the Rust crate icy_engine (mkrueger/icy_engine: engine for ANSI/BBS art and terminal emulations). Your job is that of a *fault seeder*: write {len(variants)} separate, realistic code changes to the crate, each of which BREAKS the semantic property given below while the crate still compiles and the existing test suite still passes.

Your scratch git worktree of the repository is /tmp/seed/{prop} (a detached worktree at the current HEAD, with Cargo.lock present). Work ONLY inside that directory. Never touch /repo and never read or write anything under /verif. The sandbox has no network: always use `cargo ... --offline` (e.g. `CARGO_NET_OFFLINE=true cargo build --offline`, `cargo test --offline`). Other agents are using the machine at the same time, so builds may be slow; be patient, and do not use more than `-j 4`.

## The property (this record is all you get about the verification effort)

```json
{json.dumps(rec, indent=1)}
```

## What to produce

{len(variants)} independent changes (each against the unmodified HEAD, not stacked), written to {vs} inside /tmp/seed/{prop}. Each directory contains exactly:

* `patch.diff` - output of `git diff` (paths relative to the repository root, applies with `git apply` to the clean HEAD) touching only files under `src/`. Keep it small (typically 1-15 changed lines) and make it look like something a maintainer could plausibly commit: a refactoring slip, an off-by-one, a dropped or reordered guard, a wrong variable, a "simplification", an optimisation that is wrong in a corner. No comments that give it away, no dead code, no new dependencies, no changes to tests.
* `demo.rs` - a self-contained integration test file (it will be copied to `tests/seed_demo.rs` and run with `cargo test --offline --test seed_demo`) that uses only the public API of `icy_engine`, PASSES on the clean HEAD and FAILS (assertion failure or panic) with your change applied. It demonstrates that the property is really broken.
* `meta.json` - {{"summary": one or two sentences saying what the change does, "trigger": what exactly is needed for the breakage to manifest, "files": [changed files], "demo_cmd": "cargo test --offline --test seed_demo", "why_realistic": one sentence}}.

## Requirements on each change

1. The crate compiles (`cargo build --offline`) without new warnings that would stand out.
2. The existing test suite gives exactly the same set of passing tests as on the clean HEAD. Run `cargo test --workspace --no-fail-fast --offline` on the clean tree first and note the result (on this commit 227 tests pass and 52 fail on the clean tree - the RIP tests and one IGS loop test fail already; that is expected), then again with your change: no test that passed before may fail.
3. The change must violate the property *as stated* (its statement and quantifier), on inputs inside the quantifier's domain - not some neighbouring behaviour.
4. It must need something SPECIFIC to manifest: a particular multi-step sequence of operations, an unusual but legal input, a boundary value, a specific combination of options/modes/state, an error path, two sites that each look fine alone, a particular interleaving. A change that ordinary use or any random input would expose at once is not wanted. Prefer conjunctions of two or three conditions, less-travelled variants (rarely used options, formats, commands, modes), and state left behind by earlier operations.
5. The two changes must differ from each other in site and mechanism, and from these changes that earlier seeders already wrote for this property:
{chr(10).join(used) if used else '(none yet)'}
   Prefer functions and files that the list above does not touch, as long as they are in the property's scope.

## How to work

Read the code the property is anchored in (start with the `anchors` of the record), pick sites, make a change, build, write the demo, check that the demo fails with the change and passes without (`git stash` / `git checkout -- src` to switch), run the full test suite with the change. Save `git diff -- src > OUT/<v>/patch.diff` BEFORE reverting. Leave the worktree itself clean (HEAD state, apart from OUT/ and target/) when you are done, with no stray tests/seed_demo.rs.

Finish with a short report: for each change the site, the mechanism, the trigger, and the exact commands you ran with their results (clean demo: pass, patched demo: fail, test counts).""")
