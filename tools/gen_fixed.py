#!/usr/bin/env python3
"""Rewrites the "fixed" list of /verif/known_findings.json from the fix: commits of /repo.
The property each fix belongs to is recorded here (subject substring -> property, witness)."""
import json, subprocess

MAP = [
 ("as_u8 drops the blink bit", "C18", "from_u8(b,Unlimited).as_u8(Unlimited) != b for all 128 bytes >= 0x80"),
 ("DECFRA builds the fill character", "C10", "CSI 55296;1;1;1;1$x (surrogate / >0x10FFFF fill character) materialised an invalid char (abort in debug-assertion builds)"),
 ("from_clipboard_data materialises surrogate", "C10", "clipboard cell with char field 0xD800..0xDFFF materialised an invalid char"),
 ("IcyDraw loader builds char and String", "C10", "IcyDraw long-form cell with char field 0xD800 / >0x10FFFF and chunk strings with invalid UTF-8 used unchecked constructors"),
 ("BitFont glyph tables are keyed", "C10", "font data with more than 0xD800 glyphs created invalid char keys"),
 ("BitFont::from_bytes panics or never returns", "C01", "ESC P CTerm:Font:2: ESC \\ (empty / short / inconsistent font payload) panicked; PSF1 height 0 never returned (also C02, C03)"),
 ("OSC 4 palette entry without a colour index", "C01", "ESC ] 4 ; ; rgb:00/00/00 ESC \\ panicked (osc.rs unwrap)"),
 ("closing OSC 8 hyperlink", "C01", "ESC ] 8 ; ; ESC \\ with no open hyperlink panicked (pop().unwrap())"),
 ("ANSI music parser panics", "C01", "ESC [ | O4 > > B # B indexed FREQ out of bounds; L901223258. overflowed"),
 ("cursor positioning with huge parameters overflows", "C01", "CSI 56 H CSI 2147483647 e: attempt to add with overflow"),
 ("scroll margins outside the screen", "C01", "CSI 0;r then CSI M / CSI L: 'line out of range' assertion / remove(usize::MAX); bottom margin 2^31-1 stalls scrolls (also C03)"),
 ("scroll left / right", "C01", "CSI SP @ / CSI SP A on unallocated or short rows: index / insert / remove out of bounds"),
 ("repeat counts of CSI editing functions", "C03", "CSI 2147483647 b/@/P/L/S/T/Y/Z, CSI 2147483647 SP @ / SP A looped Pn times"),
 ("CVT (CSI Pn Y) leaves the cursor", "C09", "CSI Y on any screen left caret.x == width"),
 ("form feed / reset with scrollback", "C09", "b FF / b ESC c / b CSI ! p on a 1x1 screen: cursor row 0 while first visible row is 1"),
 ("restoring a saved cursor", "C09", "a CSI u / ESC 7 ... ESC 8 after the scrollback grew: cursor outside the visible rows"),
 ("Avatar cursor commands move the cursor", "C09", "^V^H\\xFF\\x01, ^V^F on a 1x1 screen: cursor beyond width/height"),
 ("Ctrl-A home", "C09", "^A ' with scrollback: cursor at row 0 above the visible window"),
 ("sixel decoder allocates and loops", "C03", "ESC P q \" 1;1;2147483647;2147483647 #1~ ESC \\ and !2147483647~ allocate gigabytes / loop 2^31 times"),
 ("sixel pictures with rows of unequal length", "C14", "second sixel row wider than the first: picture_data.len() != width*height*4"),
 ("DCS macro definitions can grow without bound", "C03", "ESC P 1;0;1!z !2147483647;4142; ESC \\ built a multi-gigabyte macro"),
 ("a macro that invokes itself", "C03", "hex macro containing its own DECINVM sequence: unbounded recursion (stack overflow)"),
 ("Rectangle::from_coords asserts", "C20", "!|wZ... (text window / viewport corners in the wrong order) assertion failure"),
 ("RIP drawing primitives index", "C20", "!|Q with colour > 63, !|a, empty polygon, bitmap text outside the canvas: index out of bounds"),
 ("IGS pixel access computes", "C20", "G#Z7,..,2147483647: y*width+x overflow / get_pixel out of bounds"),
 ("IGS SetResolution leaves the canvas", "C20", "G#R1,0: get_picture_data returned 256000 bytes for 640x200"),
 ("IGS commands index their parameter list", "C20", "G#t: / G#z0: / G#f0: index out of bounds on empty parameter lists"),
 ("IGS drawing routines overflow on parameters", "C20", "G#D2147483647,0: attempt to multiply with overflow in draw_line"),
 ("IGS filled shapes walk every pixel", "C20", "G#Z199,0,0,99999: 6.5M pixel writes for an off-screen rectangle; G#Q ellipse error terms overflow i32"),
 ("IGS loop counter overflows", "C20", "G#&319,676,2147483647,,O@0,: attempt to add with overflow"),
 ("RIP parameter parsing panics", "C20", "!|w + non base-36 size digit: unwrap on None; long base-36 numbers overflow; empty polyline reads points[0]"),
 ("IGS polygon fill scans every line", "C20", "G#U3,0,9999,430,1: more than 4M pixel operations for one rounded box"),
 ("Tundra loader reads position and colour records", "C02", "small.tnd truncated to 10/58/74/106 bytes: index out of bounds; jump record with high bit set: negative row"),
 ("XBin loader slices the palette, font and run data", "C02", "small.xb truncated to 33/49 bytes, font/palette flags without data: index / slice out of bounds"),
 ("TheDraw font loader reads font headers and glyphs", "C02", "CODERX.TDF truncated to 240/14938/30264 bytes: index out of bounds"),
 ("SAUCE extraction underflows", "C02", "file consisting of a bare SAUCE record: len - 1 underflow; record without EOF byte drops the last content byte (also C11)"),
 ("IcyDraw loader indexes chunk payloads", "C02", "LAYER_n truncated / continuation chunk for unknown layer / string length beyond chunk: index out of bounds"),
 ("line insert / delete at a negative cursor row", "C02", ".ata file 1C 9C / 1C 9D: 'line out of range' assertion"),
 ("GIMP palette import drops every colour", "C16", "palette exported to GPL with an empty description imports as 0 colours"),
 ("iCE Draw loader throws the SAUCE record away", "C11", "any .idf saved with SAUCE: Buffer::get_sauce() is None after loading"),
 ("XBin compression loses the font page", "C06", "row [(' ',1,4,page0),(' ',1,4,page1),..]: compressed output decodes the second cell with font page 0"),
 ("XBin and ADF pictures shorter than 25 rows", "C05", "80x1 ADF / 28x24 XBin document loads with height 25"),
 ("Tundra writer gives characters 1..6", "C05", "Tundra: cell with char 1..=6 takes the previous cell's colours; first cells lose colours when palette entry 0 is not black"),
 ("iCE Draw loader lets the SAUCE width clip", "C05", "IDF width 25 with SAUCE: last column dropped (regression guard for the IDF SAUCE fix)"),
 ("Tundra loader starts with foreground index 7", "C05", "Tundra: first cell fg black / bg colour loads with the colour that becomes palette entry 7"),
 ("compressed IDF output escapes a lone", "C05", "IDF compressed: cell (char 1, fg 0, bg 0) followed by other cells shifts the rest of the row"),
 ("Avatar cursor positioning treats the 1-based", "C15", "Avatar file saved with screen preparation Home (^V^H 1 1): loads one row down / one column right"),
 ("ATASCII files longer than 24 rows", "C15", "ATASCII document of 25+ rows: rows below 24 are not part of the loaded picture"),
 ("ANSI writer skips blanks up to the right margin", "C04", "compress + cursor-forward + preserved line length: full blank row written as CSI 80 C collapses the following rows"),
 ("ANSI writer drops the bold flag", "C04", "bold cell with fg 0..7 saved with the dark colour"),
 ("ANSI writer records 'concealed' as 'blink'", "C04", "blinking cell after a concealed cell saved without SGR 5; ice-mode bright background lost"),
 ("ANSI writer skips blanks on an xterm-256 background", "C04", "compress + cursor-forward + extended colours: blanks on a 48;5;n background replaced by cursor forward"),
 ("iCE Draw loader allocates rows of up to 65536 cells", "C03", "IDF header with x2=0xFFFF: 65536-cell rows allocated per line, allocation refusal on a 20-byte file class"),
 ("undo of an area operation drops cells outside its rectangle", "C08", "set_layer_size(0,(6,4)); flip_x(); undo; undo - cells outside 6x4 gone; delete_column then center: undo panics; toggle visibility, select, scroll: undo leaves the hidden layer changed"),
 ("whole-layer scroll rotates the allocated rows", "C08", "resize_buffer(true,(17,12)); justify_right(); scroll_area_up(); undo all; redo all - different rows than the first execution"),
 ("scrolling a one-row selection up or down", "C08", "set_selection((2,4) 6x1); scroll_area_up(); undo - row 4 lost its cells right of the selection"),
 ("center writes left of a selection", "C08", "set_selection((1,1) 5x3); center(); undo - column 0 of rows 1..3 overwritten"),
 ("swapping a cell with a position outside the layer", "C08", "swap_char((0,0),(12,2)) on a 12x8 layer; undo - cell (0,0) stays erased"),
 ("make-transparent and stamp-down record an unclamped", "C08", "clear_layer(1) on a 2-layer document; make_layer_transparent(); undo fails with 'Layer 2 is invalid'"),
 ("undo of row and column insert/delete panics", "C08", "merge_layer_down(2); justify_line_left(); delete_column(); set_palette_mode(RGB); undo/redo walk panics in DeleteColumn::undo (index out of bounds)"),
 ("cursor up with a scroll region scrolls once per requested line", "C03", "ESC[2;24r ESC[2147483647A (13-byte CUU/VPB with top/bottom margins): 2^31 region scrolls"),
 ("cursor up in a file buffer leaves the caret on a negative row", "C02", "ANSI file 'ESC[4h ESC[2k 2': caret row -2 in a non-terminal buffer, print_char panics (capacity overflow)"),
 ("a PSF font with zero glyph height or width is accepted", "C02", "Avatar/ANSI file 'ESC P q \"7; ESC \\ ESC P CTerm:Font:0:NgQAAA== ESC \\' (sixel + PSF1 font with charsize 0): loader divides the image height by font height 0"),
 ("IGS ColorSet accepts pen numbers beyond the 16 pens", "C20", "G#C1,40: then any drawing command: get_picture_data() indexes pen_colors[40]"),
 ("RIP flood fill indexes outside the screen", "C20", "!|v|B|F0000VB (empty viewport) and !|v1H0LHLB2|F2MA01H (viewport below the window): flood fill indexes fill rows / screen out of bounds"),
 ("IGS filled ellipse repaints a row once per unit", "C20", "G#Q6,0,9999,0: 6.4 million pixel writes for one command"),
 ("IGS screen grab and blit loop over", "C20", "G#G0,0,0,0,999,21447,0,0: 21 million pixel copies; screen-to-memory grab of 32767x32767 asks for 1 GiB (allocation refusal)"),
 ("undo of add_floating_layer restores the layer's own role", "C08", "add_floating_layer() on an ordinary layer 'L0'; undo - the layer stays renamed to 'Floating selection' with role PastePreview"),
 ("undo of add_font / add_ansi_font into an occupied font slot", "C08", "document with fonts 0,1,5: add_ansi_font(1); undo - font slot 1 is gone"),
 ("undo of change_font_slot onto an occupied slot", "C08", "document with fonts 0,1,5: change_font_slot(1,5); undo - the font that was in slot 5 is lost"),
 ("set_font / set_ansi_font / set_sauce_font record the font of the caret's page", "C08", "switch_to_font_page(1); set_font(custom); undo - slot 1 holds a copy of font 0; replace_font_usage(0,5); set_ansi_font(1); undo - slot 5 stays in the font table"),
 ("a chars-mode layer lets cells flagged invisible contribute", "C13", "alpha layer in chars mode whose invisible cell (attribute flag INVISIBLE) stores glyph 0xDC: Buffer::get_char shows 0xDC instead of nothing (law L8)"),
 ("cursor positioning in a file buffer is unbounded", "C03", "13-byte .ans file 'ESC[2147483647;1Hab': the cursor row of a non-terminal buffer is not limited, the next character makes the layer allocate 2^31 rows (51 GB requested); CUD/CNL/CUP/VPA/VPR/HVP alike (found when C02's text-number class deferred an allocation failure to C03)"),
 ("rendering a layer image (sixel) that starts left of or above", "C07", "document with an image layer (role Image) at offset (-3,1): to_bytes(\"icy\") panics in Buffer::render_to_rgba (preview) with 'attempt to multiply with overflow'; a picture wider than the remaining row was copied into the next rows"),
 ("swap_char on a layer with a locked alpha channel erases", "C08", "update_layer_properties(0, alpha + alpha-locked); swap_char((3,3),(1,8)) where (1,8) is an invisible cell; undo - the cell at (3,3) is gone (found by the thorough tier at seed 2)"),
 ("IGS polymarker tables are walked one value per point", "C20", "G#T1,5,: G#P3,: (marker type diagonal cross, then a polymarker): index out of bounds in draw_poly_maker"),
 ("IGS line type 7 (user defined) indexes past the line style table", "C20", "G#T2,7,: G#L0,,,: (line type user defined, then a line): LINE_STYLE[6] out of bounds"),
 ("ADF and IDF writers check the size of font 0 but embed the font", "C17", "document whose cells all use font page 3 (an 8x6 font) while slot 0 holds the stock 8x16 font: to_bytes(\"adf\" / \"idf\") succeeds and writes a 1536-byte font block, the loader answers 'File too short'"),
 ("Tundra writer adds 8 to the foreground of every bold cell", "C05", "Tundra: cell 'A' fg 11 with the bold flag is written with the colour of palette entry 19 (black / a foreign colour) instead of bright cyan"),
 ("CSI S / T / SP @ / SP A scroll by their count in one pass", "C03", "16-byte .ans file 'ESC[65535;1Hx ESC[25S' (likewise T, 80 SP @, 80 SP A): the picture is 65535 rows tall and each of the 25 (80) steps passed over all of it: 1.3e8 cell writes, 1.5-6 s for a 16-byte input (found by the tall-file specials added after one C02 case needed 60 CPU-seconds)"),
 ("IcyDraw loader allocates rows at any layer width the file declares", "C03", "small.icy with the layer width field of the LAYER_0 chunk set to 0x7F000028 (any of 0x7FFF.. / 0xFFFF.. / 2^31-1 at payload offset 37..40): Layer::set_char allocates a row of that width for the first cell, 68 GB requested, abort (found when the header-field class was made to plant its values inside the chunks of the PNG instead of into the PNG bytes)"),
 ("IcyDraw loader drops the continuation chunks of hidden, locked and alpha-locked layers", "C07", "document with one hidden + locked layer of 400 x 494 long-form cells (3.03 MB of cell data, beyond the 200 x 120 of the property's quantifier - found while exploring past the domain, the class is not part of the check): rows 487.. come back invisible"),
 ("RIP button drawing visits every pixel of a button far larger", "C20", "!|R|1BZD00XMFZRLZ5|1U: about ten million put_pixel calls for one button"),
]

def main():
    log = subprocess.check_output(["git", "-C", "/repo", "log", "--reverse", "--format=%h|%s"], text=True).splitlines()
    fixed = []
    unmapped = []
    for line in log:
        h, s = line.split("|", 1)
        if not s.startswith("fix:"):
            continue
        for sub, prop, what in MAP:
            if sub in s:
                fixed.append(f"fixed: property={prop} {h} {what}")
                break
        else:
            unmapped.append(line)
    kf = json.load(open("/verif/known_findings.json"))
    kf["fixed"] = fixed
    json.dump(kf, open("/verif/known_findings.json", "w"), indent=1)
    print(len(fixed), "fixed entries;", "UNMAPPED:" if unmapped else "", *unmapped)

main()
