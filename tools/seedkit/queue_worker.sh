#!/bin/bash
# processes property ids appended to /tmp/seedkit/queue one at a time (confirm + import); stop with: echo STOP >> /tmp/seedkit/queue
mkdir -p /tmp/seedkit; touch /tmp/seedkit/queue
n=0
while true; do
  total=$(wc -l < /tmp/seedkit/queue)
  if [ $n -lt $total ]; then
    n=$((n+1)); p=$(sed -n "${n}p" /tmp/seedkit/queue)
    [ "$p" = "STOP" ] && exit 0
    /verif/tools/seedkit/process.sh $p >> /tmp/seedkit/process.log 2>&1
  else
    sleep 10
  fi
done
