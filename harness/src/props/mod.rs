pub mod c01;
pub mod c02;
pub mod c03;
pub mod c04;
pub mod c05;
pub mod c06;
pub mod c07;
pub mod c08;
pub mod c09;
pub mod c10;
pub mod c11;
pub mod c12;
pub mod c13;
pub mod c14;
pub mod c15;
pub mod c16;
pub mod c17;
pub mod c18;
pub mod c19;
pub mod c20;

use crate::Prop;

pub fn by_id(id: &str) -> Option<Box<dyn Prop>> {
    match id {
        "C01" => Some(Box::new(c01::C01::default())),
        "C02" => Some(Box::new(c02::C02::default())),
        "C03" => Some(Box::new(c03::C03::default())),
        "C04" => Some(Box::new(c04::C04::default())),
        "C05" => Some(Box::new(c05::C05::default())),
        "C06" => Some(Box::new(c06::C06::default())),
        "C07" => Some(Box::new(c07::C07::default())),
        "C08" => Some(Box::new(c08::C08::default())),
        "C09" => Some(Box::new(c09::C09::default())),
        "C10" => Some(Box::new(c10::C10::default())),
        "C11" => Some(Box::new(c11::C11::default())),
        "C12" => Some(Box::new(c12::C12::default())),
        "C13" => Some(Box::new(c13::C13::default())),
        "C14" => Some(Box::new(c14::C14::default())),
        "C15" => Some(Box::new(c15::C15::default())),
        "C16" => Some(Box::new(c16::C16::default())),
        "C17" => Some(Box::new(c17::C17::default())),
        "C18" => Some(Box::new(c18::C18::default())),
        "C19" => Some(Box::new(c19::C19::default())),
        "C20" => Some(Box::new(c20::C20::default())),
        _ => None,
    }
}
