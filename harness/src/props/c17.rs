//! C17 — bitmap and TheDraw fonts survive every encoding the engine uses.
use icy_engine::{BitFont, Buffer, BufferParser, Caret, FontGlyph, FontType, Size, TheDrawFont};
use serde::{Deserialize, Serialize};
use serde_json::{json, Value};

use crate::ctx::Ctx;
use crate::doc::{self, DocD, FontD};
use crate::files::save_opts;
use crate::mon::{guarded, Budgets, Outcome};
use crate::rng::Rng;
use crate::Prop;

#[derive(Clone, Debug, Serialize, Deserialize)]
pub enum Case17 {
    /// path: psf2 | raw-create8 | raw-basic | raw-from-bytes | dcs | xb1 | xb2 | adf | idf | icy
    Bit { path: String, height: u8, glyphs: u32, data: Vec<u8>, second: Vec<u8> },
    Builtin { path: String, page: usize, sauce_name: Option<String> },
    Tdf { fonts: Vec<TdfD>, bundle: bool },
}

#[derive(Clone, Debug, Serialize, Deserialize)]
pub struct TdfD {
    pub name: String,
    /// 0 outline 1 block 2 colour
    pub ftype: u8,
    pub spaces: u8,
    /// (char index 0..94, width, height, data)
    pub glyphs: Vec<(u8, u8, u8, Vec<u8>)>,
}

const BIT_PATHS: [&str; 10] = ["psf2", "raw-create8", "raw-basic", "raw-from-bytes", "dcs", "xb1", "xb2", "adf", "idf", "icy"];

fn glyph_rows(f: &BitFont, n: u32) -> Result<Vec<Vec<u8>>, String> {
    let mut out = Vec::new();
    for i in 0..n {
        let Some(ch) = char::from_u32(i) else {
            return Err(format!("glyph index {i} is no char"));
        };
        match f.get_glyph(ch) {
            Some(g) => out.push(g.data.clone()),
            None => return Err(format!("glyph {i} missing")),
        }
    }
    Ok(out)
}

fn compare_font(orig_h: u8, orig_n: u32, orig: &[u8], got: &BitFont, what: &str) -> Option<(String, Value)> {
    if got.size.width != 8 || got.size.height != orig_h as i32 {
        return Some((format!("font|{what}|size"), json!({"expected": [8, orig_h], "got": [got.size.width, got.size.height]})));
    }
    if got.length != orig_n as i32 {
        return Some((format!("font|{what}|length"), json!({"expected": orig_n, "got": got.length})));
    }
    match glyph_rows(got, orig_n) {
        Err(e) => Some((format!("font|{what}|glyph-missing"), json!({"what": e}))),
        Ok(rows) => {
            for (i, r) in rows.iter().enumerate() {
                let exp = &orig[i * orig_h as usize..(i + 1) * orig_h as usize];
                if r.as_slice() != exp {
                    return Some((format!("font|{what}|glyph-bits"), json!({"glyph": i, "expected": exp, "got": r})));
                }
            }
            None
        }
    }
}

fn magic_class(raw: &[u8]) -> &'static str {
    if raw.len() >= 4 && raw[0] == 0x36 && raw[1] == 0x04 {
        "psf1-magic"
    } else if raw.len() >= 4 && raw[..4] == [0x72, 0xb5, 0x4a, 0x86] {
        "psf2-magic"
    } else {
        "plain"
    }
}

fn doc_with_font(h: u8, data: &[u8], second: Option<&[u8]>, w: i32, ice: bool) -> DocD {
    let mut d = DocD::single(w, 3);
    d.ice = if ice { 2 } else { 1 };
    d.font_mode = if second.is_some() { 3 } else { 2 };
    d.fonts.push(FontD {
        slot: 0,
        name: "custom".into(),
        height: h,
        builtin: None,
        data: data.to_vec(), sauce_name: None,
    });
    d.layers[0].cells.push(doc::CellD { x: 0, y: 0, ch: 65, fg: 7, bg: 0, attr: 0, fp: 0 });
    if let Some(s) = second {
        d.fonts.push(FontD {
            slot: 1,
            name: "custom2".into(),
            height: h,
            builtin: None,
            data: s.to_vec(), sauce_name: None,
        });
        d.layers[0].cells.push(doc::CellD { x: 1, y: 0, ch: 66, fg: 7, bg: 0, attr: 0, fp: 1 });
    }
    d
}

fn run_bit(path: &str, h: u8, n: u32, data: &[u8], second: &[u8]) -> Option<(String, Value)> {
    match path {
        "psf2" => {
            // build the font (256 or 512 glyphs) through PSF2 itself, then encode -> decode
            let mut psf2 = vec![0x72, 0xb5, 0x4a, 0x86];
            for v in [0u32, 32, 0, n, h as u32, h as u32, 8] {
                psf2.extend(v.to_le_bytes());
            }
            psf2.extend_from_slice(data);
            let f0 = match BitFont::from_bytes("f", &psf2) {
                Ok(f) => f,
                Err(e) => return Some(("font|psf2|load-error".into(), json!({"error": e.to_string()}))),
            };
            if let Some(v) = compare_font(h, n, data, &f0, "psf2-load") {
                return Some(v);
            }
            let bytes = match f0.to_psf2_bytes() {
                Ok(b) => b,
                Err(e) => return Some(("font|psf2|save-error".into(), json!({"error": e.to_string()}))),
            };
            match BitFont::from_bytes("f", &bytes) {
                Ok(f) => compare_font(h, n, data, &f, "psf2"),
                Err(e) => Some(("font|psf2|reload-error".into(), json!({"error": e.to_string()}))),
            }
        }
        "raw-create8" | "raw-basic" | "raw-from-bytes" => {
            let f0 = BitFont::create_8("custom", 8, h, data);
            if let Some(v) = compare_font(h, 256, data, &f0, "create_8") {
                return Some(v);
            }
            let raw = f0.convert_to_u8_data();
            if raw != data {
                return Some(("font|convert_to_u8_data|bytes".into(), json!({"len": raw.len(), "expected_len": data.len()})));
            }
            let f = match path {
                "raw-create8" => BitFont::create_8("x", 8, h, &raw),
                "raw-basic" => BitFont::from_basic(8, h, &raw),
                _ => match BitFont::from_bytes("x", &raw) {
                    Ok(f) => f,
                    Err(e) => {
                        let head = magic_class(&raw);
                        let key = if head == "plain" { "font|raw-from-bytes|load-error".to_string() } else { format!("font|raw-from-bytes|raw data sniffed as PSF|{head}") };
                        return Some((key, json!({"error": e.to_string(), "height": h})));
                    }
                },
            };
            let head = magic_class(&raw);
            compare_font(h, 256, data, &f, path).map(|(k, d)| if head == "plain" { (k, d) } else { (format!("font|{path}|raw data sniffed as PSF|{head}"), d) })
        }
        "dcs" => {
            let f0 = BitFont::create_8("custom", 8, h, data);
            let seq = f0.encode_as_ansi(7);
            let mut buf = Buffer::create((80, 25));
            buf.is_terminal_buffer = true;
            let mut caret = Caret::default();
            let mut p = icy_engine::ansi::Parser::default();
            let mut errs = Vec::new();
            // the font sequence is not always the first string sequence the parser sees: a hyperlink (OSC 8), a palette entry
            // (OSC 4), an application string (APS), a sixel, an earlier font or a macro definition may come first
            let before: &str = match data.get(2).copied().unwrap_or(0) % 8 {
                1 => "\x1b]8;;http://example.com\x1b\\link\x1b]8;;\x1b\\",
                2 => "\x1b]4;1;rgb:aa/00/55\x1b\\",
                3 => "\x1b_application string\x1b\\",
                4 => "\x1bPq#1;2;100;0;0#1~~\x1b\\",
                5 => "\x1bP1;0;0!zmacro text\x1b\\",
                6 => "\x1bPCTerm:Font:9:AAAA\x1b\\",
                _ => "",
            };
            for ch in before.chars() {
                let _ = p.print_char(&mut buf, 0, &mut caret, ch);
            }
            for ch in seq.chars() {
                if let Err(e) = p.print_char(&mut buf, 0, &mut caret, ch) {
                    errs.push(e.to_string());
                }
            }
            let head = magic_class(data);
            let r = match buf.get_font(7) {
                Some(f) => compare_font(h, 256, data, f, "dcs"),
                None => Some(("font|dcs|not-loaded".to_string(), json!({"errors": errs, "height": h}))),
            };
            r.map(|(k, d)| if head == "plain" { (k, d) } else { (format!("font|dcs|raw data sniffed as PSF|{head}"), d) })
        }
        "xb1" | "xb2" | "adf" | "idf" | "icy" => {
            let ext = match path {
                "xb1" | "xb2" => "xb",
                x => x,
            };
            let two = path == "xb2";
            let mut d = doc_with_font(h, data, if two { Some(second) } else { None }, 80, path != "xb1");
            // variants decided by the glyph data: a custom palette next to the font, and a SAUCE record naming a stock
            // font while the embedded glyphs are not the stock ones (the file's own font is the one that must come back)
            let variant = data.iter().take(8).fold(0u8, |a, b| a.wrapping_mul(31).wrapping_add(*b)) % 4;
            if variant & 1 == 1 && path != "icy" {
                d.palette = Some((0..16).map(|i| (data[(3 * i) % data.len()] & 0xFC, data[(3 * i + 1) % data.len()] & 0xFC, data[(3 * i + 2) % data.len()] & 0xFC)).collect());
            }
            // the picture's font need not sit in slot 0: for the single-font formats sometimes every cell is on page 3, the
            // font under test is in slot 3 and slot 0 holds the stock font (the writer has to embed the font the cells use)
            let moved = matches!(path, "idf" | "adf" | "xb1") && data.get(3).copied().unwrap_or(0) % 3 == 0 && variant & 2 == 0;
            if moved {
                d.font_mode = 0;
                d.fonts[0].slot = 3;
                d.fonts.push(FontD { slot: 0, name: "stock".into(), height: 16, builtin: Some(0), data: vec![], sauce_name: None });
                for c in d.layers[0].cells.iter_mut() {
                    c.fp = 3;
                }
                d.layers[0].default_font_page = 3;
            }
            let with_sauce = variant & 2 == 2;
            if with_sauce {
                d.fonts[0].name = "IBM VGA".into();
                d.sauce = Some(doc::SauceD::default());
            }
            if path == "icy" && !with_sauce {
                // the native format stores the font's name next to its glyphs: empty, non-ASCII (multi-byte UTF-8) and long names
                d.fonts[0].name = match data.get(1).copied().unwrap_or(0) % 5 {
                    0 => String::new(),
                    1 => "Schrift \u{e4}\u{2713} \u{1F600}".into(),
                    2 => "a font name that is a good deal longer than the twenty-two characters SAUCE has room for".into(),
                    3 => "\u{416}".repeat(40),
                    _ => d.fonts[0].name.clone(),
                };
            }
            let buf = doc::build(&d);
            let bytes = match buf.to_bytes(ext, &save_opts(with_sauce, true)) {
                Ok(b) => b,
                Err(e) => {
                    // ADF / IDF only take 8x16 fonts: refusing another height is not a round-trip failure
                    if (path == "adf" || path == "idf") && h != 16 {
                        return None;
                    }
                    return Some((format!("font|{path}|save-error"), json!({"error": e.to_string(), "height": h})));
                }
            };
            let back = match Buffer::from_bytes(std::path::Path::new(&format!("f.{ext}")), false, &bytes) {
                Ok(b) => b,
                Err(e) => return Some((format!("font|{path}|load-error"), json!({"error": e.to_string(), "height": h}))),
            };
            if (path == "adf" || path == "idf") && h != 16 {
                return None;
            }
            let Some(f) = back.get_font(0) else {
                return Some((format!("font|{path}|missing-slot-0"), json!({})));
            };
            if let Some(v) = compare_font(h, 256, data, f, path) {
                return Some(v);
            }
            if two {
                let Some(f1) = back.get_font(1) else {
                    return Some(("font|xb2|missing-slot-1".into(), json!({})));
                };
                if let Some((k, dd)) = compare_font(h, 256, second, f1, "xb2") {
                    return Some((format!("{k}|second-font"), dd));
                }
            }
            None
        }
        _ => None,
    }
}

/// the built-in font *object* (its own name, as `BitFont::from_ansi_font_page` / `from_sauce_name` hand it out) embedded in an
/// IcyDraw file in slot 0 and in higher slots, next to the stock font or alone: it must come back in the same slot
fn run_builtin_object(page: usize, sauce_name: &Option<String>) -> Option<(String, Value)> {
    let font = match sauce_name {
        Some(n) => BitFont::from_sauce_name(n).ok()?,
        None => BitFont::from_ansi_font_page(page).ok()?,
    };
    let want = font.convert_to_u8_data();
    for (slot, with_stock) in [(0usize, false), (1, true), (3, true), (3, false), (100, true), (255, false)] {
        let mut d = DocD::single(20, 3);
        d.font_mode = 0;
        d.fonts.push(FontD { slot, name: String::new(), height: 16, builtin: Some(page), data: vec![], sauce_name: sauce_name.clone() });
        if with_stock {
            d.fonts.push(FontD { slot: 0, name: String::new(), height: 16, builtin: Some(0), data: vec![], sauce_name: None });
        }
        d.layers[0].cells.push(doc::CellD { x: 0, y: 0, ch: 65, fg: 7, bg: 0, attr: 0, fp: slot as u16 });
        d.layers[0].default_font_page = slot as u16;
        let buf = doc::build(&d);
        let bytes = match buf.to_bytes("icy", &save_opts(false, true)) {
            Ok(b) => b,
            Err(e) => return Some(("font|icy|builtin-object|save-error".into(), json!({"error": e.to_string(), "slot": slot, "font": font.name}))),
        };
        let back = match Buffer::from_bytes(std::path::Path::new("f.icy"), false, &bytes) {
            Ok(b) => b,
            Err(e) => return Some(("font|icy|builtin-object|load-error".into(), json!({"error": e.to_string(), "slot": slot, "font": font.name}))),
        };
        let Some(f) = back.get_font(slot) else {
            return Some(("font|icy|builtin-object|missing-slot".into(), json!({"slot": slot, "font": font.name, "stock_font_in_slot_0": with_stock})));
        };
        if f.size != font.size || f.length != font.length || f.convert_to_u8_data() != want {
            return Some((
                "font|icy|builtin-object|differs".into(),
                json!({"slot": slot, "font": font.name, "stock_font_in_slot_0": with_stock, "saved_size": [font.size.width, font.size.height], "loaded_size": [f.size.width, f.size.height],
                       "saved_glyphs": font.length, "loaded_glyphs": f.length, "loaded_name": f.name}),
            ));
        }
    }
    None
}

/// the same font object as the only font of an XBin picture (the writer leaves out a font it takes for the stock one - by
/// its name -, the loader then falls back to the stock font: the glyphs must be the same either way)
fn run_builtin_object_xb(page: usize, sauce_name: &Option<String>) -> Option<(String, Value)> {
    let font = match sauce_name {
        Some(n) => BitFont::from_sauce_name(n).ok()?,
        None => BitFont::from_ansi_font_page(page).ok()?,
    };
    if font.size.width != 8 || font.length != 256 {
        return None;
    }
    let want = font.convert_to_u8_data();
    let mut d = DocD::single(20, 3);
    d.font_mode = 2;
    d.fonts.push(FontD { slot: 0, name: String::new(), height: 16, builtin: Some(page), data: vec![], sauce_name: sauce_name.clone() });
    d.layers[0].cells.push(doc::CellD { x: 0, y: 0, ch: 65, fg: 7, bg: 0, attr: 0, fp: 0 });
    let buf = doc::build(&d);
    for compress in [true, false] {
        let bytes = match buf.to_bytes("xb", &save_opts(false, compress)) {
            Ok(b) => b,
            Err(e) => return Some(("font|xb|builtin-object|save-error".into(), json!({"error": e.to_string(), "font": font.name}))),
        };
        let back = match Buffer::from_bytes(std::path::Path::new("f.xb"), false, &bytes) {
            Ok(b) => b,
            Err(e) => return Some(("font|xb|builtin-object|load-error".into(), json!({"error": e.to_string(), "font": font.name}))),
        };
        let Some(f) = back.get_font(0) else {
            return Some(("font|xb|builtin-object|missing-slot".into(), json!({"font": font.name})));
        };
        if f.size != font.size || f.length != font.length || f.convert_to_u8_data() != want {
            return Some((
                "font|xb|builtin-object|differs".into(),
                json!({"font": font.name, "saved_size": [font.size.width, font.size.height], "loaded_size": [f.size.width, f.size.height], "loaded_name": f.name, "compress": compress}),
            ));
        }
    }
    None
}

fn build_tdf(d: &TdfD) -> TheDrawFont {
    let t = match d.ftype {
        0 => FontType::Outline,
        1 => FontType::Block,
        _ => FontType::Color,
    };
    let mut f = TheDrawFont::new(d.name.clone(), t, d.spaces as i32);
    for (idx, w, h, data) in &d.glyphs {
        let ch = (b'!' + *idx) as char;
        f.set_glyph(
            ch,
            FontGlyph {
                size: Size::new(*w as i32, *h as i32),
                data: data.clone(),
            },
        );
    }
    f
}

/// independent TDF reader (from the TheDraw font file layout)
fn ref_read_tdf(bytes: &[u8]) -> Result<Vec<TdfD>, String> {
    if bytes.len() < 20 || bytes[0] != 19 || &bytes[1..19] != b"TheDraw FONTS file" || bytes[19] != 0x1A {
        return Err("bad file header".into());
    }
    let mut o = 20;
    let mut out = Vec::new();
    while o < bytes.len() && bytes[o] != 0 {
        if o + 4 + 1 + 12 + 4 + 1 + 1 + 2 + 188 > bytes.len() {
            return Err(format!("font header at {o} runs past the end"));
        }
        if bytes[o..o + 4] != [0x55, 0xAA, 0x00, 0xFF] {
            return Err(format!("bad font indicator at {o}"));
        }
        o += 4;
        let nl = (bytes[o] as usize).min(12);
        let raw_name = &bytes[o + 1..o + 1 + nl];
        let name_end = raw_name.iter().position(|b| *b == 0).unwrap_or(nl);
        let name = String::from_utf8_lossy(&raw_name[..name_end]).to_string();
        o += 1 + 12 + 4;
        let ftype = bytes[o];
        let spaces = bytes[o + 1];
        let block = u16::from_le_bytes([bytes[o + 2], bytes[o + 3]]) as usize;
        o += 4;
        let table: Vec<u16> = (0..94).map(|i| u16::from_le_bytes([bytes[o + 2 * i], bytes[o + 2 * i + 1]])).collect();
        o += 188;
        if o + block > bytes.len() {
            return Err("font data block runs past the end".into());
        }
        let data = &bytes[o..o + block];
        let mut glyphs = Vec::new();
        for (i, off) in table.iter().enumerate() {
            if *off == 0xFFFF {
                continue;
            }
            let mut p = *off as usize;
            if p + 2 > data.len() {
                return Err(format!("glyph {i} offset {p} outside the block of {block}"));
            }
            let (w, h) = (data[p], data[p + 1]);
            p += 2;
            let mut g = Vec::new();
            loop {
                if p >= data.len() {
                    return Err(format!("glyph {i} is not terminated"));
                }
                let c = data[p];
                p += 1;
                if c == 0 {
                    break;
                }
                g.push(c);
                if ftype == 2 && c != 13 {
                    if p >= data.len() {
                        return Err(format!("glyph {i} attribute missing"));
                    }
                    g.push(data[p]);
                    p += 1;
                }
            }
            glyphs.push((i as u8, w, h, g));
        }
        o += block;
        out.push(TdfD { name, ftype, spaces, glyphs });
    }
    Ok(out)
}

fn tdf_equal(a: &TdfD, b: &TdfD) -> Option<String> {
    if a.name != b.name {
        return Some(format!("name {:?} vs {:?}", a.name, b.name));
    }
    if a.ftype != b.ftype {
        return Some(format!("type {} vs {}", a.ftype, b.ftype));
    }
    if a.spaces != b.spaces {
        return Some(format!("spacing {} vs {}", a.spaces, b.spaces));
    }
    if a.glyphs.len() != b.glyphs.len() {
        return Some(format!("{} vs {} glyphs", a.glyphs.len(), b.glyphs.len()));
    }
    for (x, y) in a.glyphs.iter().zip(b.glyphs.iter()) {
        if x != y {
            return Some(format!("glyph {} differs: {}x{} {} bytes vs {}x{} {} bytes", x.0, x.1, x.2, x.3.len(), y.1, y.2, y.3.len()));
        }
    }
    None
}

fn describe_engine_font(f: &TheDrawFont) -> TdfD {
    TdfD {
        name: f.name.clone(),
        ftype: match f.font_type {
            FontType::Outline => 0,
            FontType::Block => 1,
            FontType::Color => 2,
        },
        spaces: f.spaces as u8,
        glyphs: f
            .verif_glyphs()
            .iter()
            .enumerate()
            .filter_map(|(i, g)| g.as_ref().map(|g| (i as u8, g.size.width as u8, g.size.height as u8, g.data.clone())))
            .collect(),
    }
}

fn run_tdf(fonts: &[TdfD], bundle: bool) -> Option<(String, Value)> {
    let engine_fonts: Vec<TheDrawFont> = fonts.iter().map(build_tdf).collect();
    let bytes = if bundle {
        TheDrawFont::create_font_bundle(&engine_fonts)
    } else {
        engine_fonts[0].as_tdf_bytes()
    };
    let total: usize = fonts.iter().map(|f| f.glyphs.iter().map(|g| g.3.len() + 3).sum::<usize>()).max().unwrap_or(0);
    let size_class = if total > 65535 { "block>64K" } else { "block<=64K" };
    let bytes = match bytes {
        Ok(b) => b,
        Err(e) => {
            // refusing a font the format cannot hold (name / spacing limits) is fine
            return if fonts.iter().any(|f| f.name.len() > 12 || f.spaces > 40) || total > 65535 {
                None
            } else {
                Some(("tdf|save-error".into(), json!({"error": e.to_string()})))
            };
        }
    };
    let expect: Vec<TdfD> = if bundle { fonts.to_vec() } else { vec![fonts[0].clone()] };
    // writer side: the independent reader must see what was generated
    match ref_read_tdf(&bytes) {
        Ok(seen) => {
            if seen.len() != expect.len() {
                return Some((format!("tdf|writer|font-count|{size_class}"), json!({"expected": expect.len(), "reference_reader_sees": seen.len()})));
            }
            for (i, (a, b)) in expect.iter().zip(seen.iter()).enumerate() {
                if let Some(w) = tdf_equal(a, b) {
                    return Some((format!("tdf|writer|font-content|{size_class}"), json!({"font": i, "difference": w, "type": a.ftype})));
                }
            }
        }
        Err(e) => return Some((format!("tdf|writer|invalid-file|{size_class}"), json!({"reference_reader": e}))),
    }
    // reader side
    match TheDrawFont::from_tdf_bytes(&bytes) {
        Ok(loaded) => {
            if loaded.len() != expect.len() {
                return Some((format!("tdf|reader|font-count|{size_class}"), json!({"expected": expect.len(), "loaded": loaded.len()})));
            }
            for (i, (a, b)) in expect.iter().zip(loaded.iter()).enumerate() {
                if let Some(w) = tdf_equal(a, &describe_engine_font(b)) {
                    return Some((format!("tdf|reader|font-content|{size_class}"), json!({"font": i, "difference": w, "type": a.ftype})));
                }
            }
            None
        }
        Err(e) => Some((format!("tdf|reader|load-error|{size_class}"), json!({"error": e.to_string()}))),
    }
}

fn gen_tdf(rng: &mut Rng) -> TdfD {
    let ftype = rng.usize(3) as u8;
    let n = match rng.usize(5) {
        0 => 0,
        1 => 94,
        _ => rng.usize(95),
    };
    let mut idxs: Vec<u8> = (0..94).collect();
    for i in (1..idxs.len()).rev() {
        let j = rng.usize(i + 1);
        idxs.swap(i, j);
    }
    let mut chosen: Vec<u8> = idxs.into_iter().take(n).collect();
    chosen.sort_unstable();
    let small = rng.chance(3, 4);
    // one font in eight has (nearly) all glyphs at (nearly) the largest size: its glyph data block passes 32767 bytes, the
    // point where the 16-bit offsets of the glyph table stop fitting a signed number
    let huge = !small && rng.bool();
    let glyphs = chosen
        .into_iter()
        .map(|i| {
            let w = if small { 1 + rng.usize(6) } else if huge { 28 + rng.usize(3) } else { 1 + rng.usize(30) } as u8;
            let h = if small { 1 + rng.usize(4) } else if huge { 11 + rng.usize(2) } else { 1 + rng.usize(12) } as u8;
            let mut data = Vec::new();
            for row in 0..h {
                for _ in 0..w {
                    let c = loop {
                        let c = if ftype == 0 { b'A' + rng.usize(17) as u8 } else { 1 + rng.usize(255) as u8 };
                        if c != 13 && c != 0 {
                            break c;
                        }
                    };
                    data.push(c);
                    if ftype == 2 {
                        data.push(rng.byte());
                    }
                }
                if row + 1 < h {
                    data.push(13);
                }
            }
            (i, w, h, data)
        })
        .collect();
    let name_len = match rng.usize(4) {
        0 => 0,
        1 => 12,
        _ => rng.usize(13),
    };
    TdfD {
        // letters, digits, punctuation - and blanks, also at the start and at the end of the name
        name: (0..name_len).map(|_| *rng.pick(&['a', 'Z', 'q', '0', '9', ' ', ' ', '-', '_', '!', '.', 'x']) ).collect(),
        ftype,
        spaces: rng.usize(41) as u8,
        glyphs,
    }
}

#[derive(Default)]
pub struct C17 {}

impl C17 {
    fn case_for(&self, ctx: &Ctx, k: u64) -> Case17 {
        // built-in pages 0..=42 x all paths first
        let nb = 43 * BIT_PATHS.len() as u64;
        if k < nb {
            return Case17::Builtin {
                path: BIT_PATHS[(k % BIT_PATHS.len() as u64) as usize].into(),
                page: (k / BIT_PATHS.len() as u64) as usize,
                sauce_name: None,
            };
        }
        let ns = icy_engine::SAUCE_FONT_NAMES.len() as u64 * BIT_PATHS.len() as u64;
        if k < nb + ns {
            let i = k - nb;
            return Case17::Builtin {
                path: BIT_PATHS[(i % BIT_PATHS.len() as u64) as usize].into(),
                page: 0,
                sauce_name: Some(icy_engine::SAUCE_FONT_NAMES[(i / BIT_PATHS.len() as u64) as usize].to_string()),
            };
        }
        let mut rng = ctx.rng(k);
        if rng.chance(2, 3) {
            let path = *rng.pick(&BIT_PATHS);
            let h: u8 = if matches!(path, "adf" | "idf") && rng.chance(3, 4) { 16 } else { 1 + rng.usize(32) as u8 };
            let glyphs: u32 = if path == "psf2" && rng.bool() { 512 } else { 256 };
            let n = glyphs as usize * h as usize;
            let mut data = match rng.usize(4) {
                0 => vec![0u8; n],
                1 => vec![0xFF; n],
                _ => rng.bytes(n),
            };
            if rng.chance(1, 6) && n >= 4 {
                // raw data that starts with a PSF magic number
                if rng.bool() {
                    data[0] = 0x36;
                    data[1] = 0x04;
                } else {
                    data[..4].copy_from_slice(&[0x72, 0xb5, 0x4a, 0x86]);
                }
            }
            let second = rng.bytes(256 * h as usize);
            Case17::Bit {
                path: path.into(),
                height: h,
                glyphs,
                data,
                second,
            }
        } else {
            let bundle = rng.bool();
            let n = if bundle { *rng.pick(&[1usize, 2, 3, 6, 34]) } else { 1 };
            Case17::Tdf {
                fonts: (0..n).map(|_| gen_tdf(&mut rng)).collect(),
                bundle,
            }
        }
    }

    fn exec(&mut self, ctx: &mut Ctx, case: &Case17) {
        let c = case.clone();
        let (out, _m) = guarded(Budgets::default(), move || match &c {
            Case17::Bit { path, height, glyphs, data, second } => run_bit(path, *height, *glyphs, data, second),
            Case17::Builtin { path, page, sauce_name } => {
                let f = match sauce_name {
                    Some(n) => BitFont::from_sauce_name(n),
                    None => BitFont::from_ansi_font_page(*page),
                };
                if path == "icy" {
                    if let Some(v) = run_builtin_object(*page, sauce_name) {
                        return Some(v);
                    }
                }
                if path == "xb1" {
                    if let Some(v) = run_builtin_object_xb(*page, sauce_name) {
                        return Some(v);
                    }
                }
                match f {
                    Ok(f) => {
                        if f.size.width != 8 || f.length != 256 {
                            return None;
                        }
                        let data = f.convert_to_u8_data();
                        run_bit(path, f.size.height as u8, 256, &data, &data)
                    }
                    Err(_) => None,
                }
            }
            Case17::Tdf { fonts, bundle } => run_tdf(fonts, *bundle),
        });
        match out {
            Outcome::Done(res) => {
                match case {
                    Case17::Bit { path, height, glyphs, data, .. } => {
                        ctx.count(&format!("bitfont_{path}"), 1);
                        ctx.fp(crate::rng::mix(crate::rng::hash_str(path), (*height as u64) << 32 | (*glyphs as u64) << 8 | (crate::rng::hash_bytes(&data[..data.len().min(64)]) & 0xFF)));
                    }
                    Case17::Builtin { path, page, sauce_name } => {
                        ctx.count("builtin_font_paths", 1);
                        ctx.fp(crate::rng::mix(crate::rng::hash_str(path), *page as u64 ^ sauce_name.as_deref().map(crate::rng::hash_str).unwrap_or(0)));
                    }
                    Case17::Tdf { fonts, bundle } => {
                        ctx.count("tdf_files", 1);
                        ctx.count("tdf_fonts", fonts.len() as u64);
                        ctx.fp(crate::rng::mix(fonts.len() as u64, (*bundle as u64) << 40 | fonts.iter().map(|f| f.glyphs.len() as u64 * 3 + f.ftype as u64).sum::<u64>()));
                    }
                }
                if ctx.want_sample() && ctx.evaluations % 211 == 30 {
                    let s = match case {
                        Case17::Bit { path, height, glyphs, .. } => json!({"kind": "bitfont", "path": path, "height": height, "glyphs": glyphs}),
                        Case17::Builtin { path, page, sauce_name } => json!({"kind": "builtin", "path": path, "page": page, "sauce": sauce_name}),
                        Case17::Tdf { fonts, bundle } => json!({"kind": "tdf", "bundle": bundle, "fonts": fonts.iter().map(|f| json!({"name": f.name, "type": f.ftype, "glyphs": f.glyphs.len()})).collect::<Vec<_>>()}),
                    };
                    ctx.sample(s);
                }
                if let Some((key, mut detail)) = res {
                    if let Case17::Bit { path, height, glyphs, .. } = case {
                        detail["path"] = json!(path);
                        detail["height"] = json!(height);
                        detail["glyph_count"] = json!(glyphs);
                    }
                    ctx.violation(&key, detail, serde_json::to_value(case).unwrap());
                }
            }
            Outcome::Panicked(p) => ctx.panic_violation("font", &p, serde_json::to_value(case).unwrap()),
        }
    }
}

impl Prop for C17 {
    fn id(&self) -> &'static str {
        "C17"
    }
    fn rule(&self) -> &'static str {
        "bitmap fonts (8 x 1..=32, 256 glyphs, 512 for PSF2; all-zero / all-one / random glyph bytes, some starting with a PSF magic number; every built-in page 0..=42 and every SAUCE font) are sent through PSF2 bytes, raw data (create_8, from_basic, from_bytes), the DCS CTerm:Font sequence fed to the real ANSI parser (also after an OSC 8 / OSC 4 / APS / sixel / macro / other font sequence on the same parser), and embedding in XBin (1 and 2 fonts), ADF, IDF and IcyDraw files written and loaded by the engine (with and without a custom palette in the same file, for IDF / ADF / one-font XBin also with the font in slot 3, every cell on page 3 and the stock font in slot 0, with and without a SAUCE record that names the stock font 'IBM VGA' while the embedded glyphs differ; IcyDraw also under empty, non-ASCII and long font names, and every built-in page and SAUCE font also as the font object itself - under its own name - in slots 0, 1, 3, 100 and 255 of an IcyDraw file, with and without the stock font in slot 0, and as the only font of an XBin picture); size, glyph count and every glyph must be bit-identical. TheDraw fonts (outline/block/colour, 0..=94 glyphs up to 30x12 - one font in eight with every glyph near that size, a glyph data block beyond 32767 bytes -, names 0..=12 (letters, digits, punctuation, blanks also first and last), spacing 0..=40, bundles of 1..=34) are written with as_tdf_bytes / create_font_bundle, checked by an independent TDF reader in the harness (writer side) and re-read with from_tdf_bytes (reader side, glyph table via hook H5). distinct_nontrivial = distinct (path, height, glyph count, data class) / (bundle size, glyph layout) fingerprints"
    }
    fn meta(&self, ctx: &Ctx) -> Value {
        json!({"floor_evaluations": 1000, "floor_distinct": ctx.tier.pick(800u64, 5000u64),
               "assumptions": ["ADF and IDF only embed 8x16 fonts: other heights must be refused or are not compared", "embedded fonts are given a non-default name (the XBin writer decides by name whether a font is the default one)"]})
    }
    fn total(&mut self, ctx: &Ctx) -> u64 {
        43 * BIT_PATHS.len() as u64 + icy_engine::SAUCE_FONT_NAMES.len() as u64 * BIT_PATHS.len() as u64 + ctx.tier.pick(40_000, 300_000)
    }
    fn run_case(&mut self, ctx: &mut Ctx, k: u64) {
        let case = self.case_for(ctx, k);
        ctx.begin(k);
        self.exec(ctx, &case);
    }
    fn replay(&mut self, ctx: &mut Ctx, case: &Value) {
        let c: Case17 = serde_json::from_value(case.clone()).expect("c17 case");
        ctx.begin(0);
        self.exec(ctx, &c);
    }
}
