//! Serialisable document descriptions and generators (C02, C04-C07, C11-C13, C15, C17).
use icy_engine::{AttributedChar, BitFont, Buffer, BufferType, Color, FontMode, IceMode, Layer, Mode, PaletteMode, Position, Role, SauceData, SauceString, Size, TextAttribute, TextPane};
use serde::{Deserialize, Serialize};

use crate::rng::Rng;

#[derive(Clone, Debug, Serialize, Deserialize, PartialEq)]
pub struct CellD {
    pub x: i32,
    pub y: i32,
    pub ch: u32,
    pub fg: u32,
    pub bg: u32,
    pub attr: u16,
    pub fp: u16,
}

#[derive(Clone, Debug, Serialize, Deserialize)]
pub struct LayerD {
    pub title: String,
    pub w: i32,
    pub h: i32,
    pub ox: i32,
    pub oy: i32,
    pub visible: bool,
    pub locked: bool,
    pub pos_locked: bool,
    pub alpha: bool,
    pub alpha_locked: bool,
    /// 0 normal, 1 chars, 2 attributes
    pub mode: u8,
    pub transparency: u8,
    pub color: Option<(u8, u8, u8)>,
    pub default_font_page: u16,
    pub cells: Vec<CellD>,
    /// role Image: one sixel picture (width, height in pixels, RGBA bytes) instead of cells
    #[serde(default)]
    pub image: Option<(i32, i32, Vec<u8>)>,
    /// the rows the layer stores beyond its last cell are dropped (`lines` ends after the last row that holds a cell; it is
    /// empty for a layer without cells - what `Layer::clear` and the crop operations leave behind)
    #[serde(default)]
    pub rows_trimmed: bool,
}

impl LayerD {
    pub fn plain(w: i32, h: i32) -> Self {
        LayerD {
            title: "Background".into(),
            w,
            h,
            ox: 0,
            oy: 0,
            visible: true,
            locked: false,
            pos_locked: false,
            alpha: false,
            alpha_locked: false,
            mode: 0,
            transparency: 0,
            color: None,
            default_font_page: 0,
            cells: vec![],
            image: None,
            rows_trimmed: false,
        }
    }
}

#[derive(Clone, Debug, Serialize, Deserialize)]
pub struct FontD {
    pub slot: usize,
    pub name: String,
    pub height: u8,
    /// built-in ANSI font page, or explicit glyph bytes (256 * height)
    pub builtin: Option<usize>,
    #[serde(default)]
    pub data: Vec<u8>,
    /// SAUCE font name (BitFont::from_sauce_name), overrides builtin / data
    #[serde(default)]
    pub sauce_name: Option<String>,
}

#[derive(Clone, Debug, Serialize, Deserialize, Default)]
pub struct SauceD {
    pub title: Vec<u8>,
    pub author: Vec<u8>,
    pub group: Vec<u8>,
    pub comments: Vec<Vec<u8>>,
    pub ice: bool,
    pub letter_spacing: bool,
    pub aspect_ratio: bool,
    pub font: Option<String>,
    /// the file type the SAUCE data remembers from where it was loaded (0 undefined, 1 ASCII, 2 ANSi, 3 ANSiMation,
    /// 4 PCBoard, 5 Avatar, 6 TundraDraw, 7 Bin, 8 XBin); a writer chooses the variant it writes by its own format
    #[serde(default)]
    pub file_type: u8,
}

#[derive(Clone, Debug, Serialize, Deserialize)]
pub struct DocD {
    pub w: i32,
    pub h: i32,
    /// 0 unicode 1 cp437 2 petscii 3 atascii 4 viewdata
    pub buffer_type: u8,
    /// 0 unlimited 1 blink 2 ice
    pub ice: u8,
    pub palette_mode: u8,
    pub font_mode: u8,
    /// None = DOS default palette
    pub palette: Option<Vec<(u8, u8, u8)>>,
    pub fonts: Vec<FontD>,
    pub layers: Vec<LayerD>,
    pub sauce: Option<SauceD>,
}

impl DocD {
    pub fn single(w: i32, h: i32) -> Self {
        DocD {
            w,
            h,
            buffer_type: 1,
            ice: 0,
            palette_mode: 1,
            font_mode: 1,
            palette: None,
            fonts: vec![],
            layers: vec![LayerD::plain(w, h)],
            sauce: None,
        }
    }
}

pub fn make_attr(fg: u32, bg: u32, attr: u16, fp: u16) -> TextAttribute {
    let mut a = TextAttribute::new(fg, bg);
    a.attr = attr;
    a.set_font_page(fp as usize);
    a
}

pub fn make_font(f: &FontD) -> BitFont {
    if let Some(n) = &f.sauce_name {
        if let Ok(font) = BitFont::from_sauce_name(n) {
            return font;
        }
    }
    if let Some(page) = f.builtin {
        if let Ok(mut font) = BitFont::from_ansi_font_page(page) {
            // a renamed copy of a stock page: the glyphs of the built-in font under another name
            if f.name.starts_with("renamed ") {
                font.name = f.name.clone();
            }
            return font;
        }
    }
    if f.height > 0 && f.data.len() > 256 * f.height as usize && f.data.len() % f.height as usize == 0 {
        // more than 256 glyphs: built through PSF2 (the only constructor that takes a glyph count)
        let n = (f.data.len() / f.height as usize) as u32;
        let mut psf2 = vec![0x72, 0xb5, 0x4a, 0x86];
        for v in [0u32, 32, 0, n, f.height as u32, f.height as u32, 8] {
            psf2.extend(v.to_le_bytes());
        }
        psf2.extend_from_slice(&f.data);
        if let Ok(mut font) = BitFont::from_bytes(f.name.clone(), &psf2) {
            font.name = f.name.clone();
            return font;
        }
    }
    let mut font = BitFont::create_8(f.name.clone(), 8, f.height, &f.data);
    font.name = f.name.clone();
    font
}

pub fn sauce_string<const LEN: usize, const EMPTY: u8>(bytes: &[u8]) -> SauceString<LEN, EMPTY> {
    // SauceString::from converts unicode -> cp437; build from the cp437 bytes through the table
    let s: String = bytes.iter().map(|b| icy_engine::ascii::CP437_TO_UNICODE[*b as usize]).collect();
    SauceString::<LEN, EMPTY>::from(s)
}

pub fn make_sauce(s: &SauceD, size: Size) -> SauceData {
    let mut d = SauceData::default();
    d.title = sauce_string(&s.title);
    d.author = sauce_string(&s.author);
    d.group = sauce_string(&s.group);
    d.comments = s.comments.iter().map(|c| sauce_string(c)).collect();
    d.use_ice = s.ice;
    d.use_letter_spacing = s.letter_spacing;
    d.use_aspect_ratio = s.aspect_ratio;
    d.font_opt = s.font.clone();
    d.buffer_size = size;
    d.sauce_file_type = match s.file_type {
        1 => icy_engine::SauceFileType::Ascii,
        2 => icy_engine::SauceFileType::Ansi,
        3 => icy_engine::SauceFileType::ANSiMation,
        4 => icy_engine::SauceFileType::PCBoard,
        5 => icy_engine::SauceFileType::Avatar,
        6 => icy_engine::SauceFileType::TundraDraw,
        7 => icy_engine::SauceFileType::Bin,
        8 => icy_engine::SauceFileType::XBin,
        _ => icy_engine::SauceFileType::Undefined,
    };
    d
}

pub fn build_layer(l: &LayerD) -> Layer {
    let mut layer = Layer::new(l.title.clone(), (l.w, l.h));
    layer.properties.has_alpha_channel = l.alpha;
    layer.properties.mode = match l.mode {
        1 => Mode::Chars,
        2 => Mode::Attributes,
        _ => Mode::Normal,
    };
    layer.properties.color = l.color.map(|(r, g, b)| Color::new(r, g, b));
    layer.transparency = l.transparency;
    layer.default_font_page = l.default_font_page as usize;
    layer.role = Role::Normal;
    if let Some((w, h, data)) = &l.image {
        layer.role = Role::Image;
        layer.sixels.push(icy_engine::Sixel::from_data((*w, *h), 1, 1, image_bytes(*w, *h, data)));
    }
    layer.set_offset((l.ox, l.oy));
    for c in &l.cells {
        if let Some(ch) = char::from_u32(c.ch) {
            layer.set_char((c.x, c.y), AttributedChar::new(ch, make_attr(c.fg, c.bg, c.attr, c.fp)));
        }
    }
    if l.rows_trimmed {
        let keep = l.cells.iter().filter(|c| c.x >= 0 && c.y >= 0 && c.x < l.w && c.y < l.h).map(|c| c.y + 1).max().unwrap_or(0) as usize;
        layer.lines.truncate(keep);
    }
    // flags that make set_char a no-op come last
    layer.properties.is_visible = l.visible;
    layer.properties.is_locked = l.locked;
    layer.properties.is_position_locked = l.pos_locked;
    layer.properties.is_alpha_channel_locked = l.alpha_locked;
    layer
}

/// the RGBA bytes of an image layer: stored in full, or - for pictures of megabytes - as an 8-byte seed that is expanded
/// here (keeps cases and replay files small)
pub fn image_bytes(w: i32, h: i32, data: &[u8]) -> Vec<u8> {
    let want = (w as usize) * (h as usize) * 4;
    if data.len() == 8 && want != 8 {
        let mut x = u64::from_le_bytes(data.try_into().unwrap()) | 1;
        let mut out = Vec::with_capacity(want + 8);
        while out.len() < want {
            x ^= x << 13;
            x ^= x >> 7;
            x ^= x << 17;
            out.extend_from_slice(&x.to_le_bytes());
        }
        out.truncate(want);
        return out;
    }
    data.to_vec()
}

pub fn build(doc: &DocD) -> Buffer {
    let mut buf = Buffer::new((doc.w, doc.h));
    buf.buffer_type = BufferType::from_byte(doc.buffer_type);
    buf.ice_mode = IceMode::from_byte(doc.ice);
    buf.palette_mode = PaletteMode::from_byte(doc.palette_mode);
    buf.font_mode = FontMode::from_byte(doc.font_mode);
    if let Some(p) = &doc.palette {
        let mut pal = icy_engine::Palette::new();
        pal.clear();
        for (r, g, b) in p {
            pal.push(Color::new(*r, *g, *b));
        }
        buf.palette = pal;
    }
    for f in &doc.fonts {
        // the slot is emptied first, so that the font is the one inserted here whatever the slot held before
        buf.remove_font(f.slot);
        buf.set_font(f.slot, make_font(f));
    }
    buf.layers.clear();
    for l in &doc.layers {
        buf.layers.push(build_layer(l));
    }
    if let Some(s) = &doc.sauce {
        buf.set_sauce(Some(make_sauce(s, Size::new(doc.w, doc.h))), false);
    }
    buf
}

// ---------------------------------------------------------------- generators

#[derive(Clone, Copy, Debug, PartialEq)]
pub enum Chars {
    /// 0x20..=0x7E and 0x80..=0xFE
    Printable,
    /// all 256 codes
    Full,
    /// full range without 0x00
    FullNoNul,
    /// a handful of characters (long runs)
    Small,
    /// any unicode scalar
    Unicode,
    /// 0x20..=0x7C (the ATASCII writer's printable domain)
    Ascii7,
}

#[derive(Clone, Copy, Debug, PartialEq)]
pub enum Colors {
    /// fg 0..16, bg 0..8
    Dos,
    /// fg 0..16, bg 0..16
    Ice,
    /// few pairs (runs)
    Small,
    /// indices into a larger palette
    Palette(u32),
}

pub fn pick_char(rng: &mut Rng, c: Chars) -> u32 {
    match c {
        Chars::Printable => {
            let v = rng.usize(0x5F + 0x7F);
            if v < 0x5F {
                0x20 + v as u32
            } else {
                0x80 + (v - 0x5F) as u32
            }
        }
        Chars::Full => rng.below(256) as u32,
        Chars::Ascii7 => 0x20 + rng.below(0x5D) as u32,
        Chars::FullNoNul => 1 + rng.below(255) as u32,
        Chars::Small => *rng.pick(&[b'A' as u32, b'B' as u32, 0x20, 0xDB, 0xB0]),
        Chars::Unicode => loop {
            let v = match rng.usize(4) {
                0 => rng.below(256) as u32,
                1 => rng.below(0x1_0000) as u32,
                2 => 0x1_0000 + rng.below(0x10_0000) as u32,
                _ => *rng.pick(&[0u32, 0xFF, 0x100, 0xD7FF, 0xE000, 0xFFFF, 0x10000, 0x10FFFF]),
            };
            if char::from_u32(v).is_some() {
                break v;
            }
        },
    }
}

pub fn pick_colors(rng: &mut Rng, c: Colors) -> (u32, u32) {
    match c {
        Colors::Dos => (rng.below(16) as u32, rng.below(8) as u32),
        Colors::Ice => (rng.below(16) as u32, rng.below(16) as u32),
        Colors::Small => *rng.pick(&[(7u32, 0u32), (15, 1), (7, 0), (0, 7), (14, 4)]),
        Colors::Palette(n) => (rng.below(n as u64) as u32, rng.below(n as u64) as u32),
    }
}

/// fill a layer description: `density` in 0..=100 (percent of cells set), rows of varying length
pub fn fill_cells(rng: &mut Rng, l: &mut LayerD, chars: Chars, colors: Colors, attr_mask: u16, font_pages: u16, density: u64) {
    l.cells.clear();
    for y in 0..l.h {
        // row shape: empty, partial, full
        let len = match rng.usize(6) {
            0 => 0,
            1 => l.w,
            2 => l.w,
            _ => rng.range(0, l.w as i64) as i32,
        };
        let mut run: Option<(u32, u32, u32, u16, u16, i32)> = None;
        for x in 0..len {
            if !rng.chance(density, 100) {
                run = None;
                continue;
            }
            let cell = if let Some((ch, fg, bg, attr, fp, left)) = run {
                if left > 0 {
                    run = Some((ch, fg, bg, attr, fp, left - 1));
                    (ch, fg, bg, attr, fp)
                } else {
                    run = None;
                    continue;
                }
            } else {
                let ch = pick_char(rng, chars);
                let (fg, bg) = pick_colors(rng, colors);
                let attr = if attr_mask != 0 && rng.chance(1, 3) { (rng.next_u32() as u16) & attr_mask } else { 0 };
                let fp = if font_pages > 1 { rng.below(font_pages as u64) as u16 } else { 0 };
                if rng.chance(1, 5) {
                    run = Some((ch, fg, bg, attr, fp, rng.range(1, 70) as i32));
                }
                (ch, fg, bg, attr, fp)
            };
            l.cells.push(CellD {
                x,
                y,
                ch: cell.0,
                fg: cell.1,
                bg: cell.2,
                attr: cell.3,
                fp: cell.4,
            });
        }
    }
}

pub fn random_sauce(rng: &mut Rng) -> SauceD {
    let s = |rng: &mut Rng, max: usize| -> Vec<u8> {
        let n = match rng.usize(4) {
            0 => 0,
            1 => max,
            _ => rng.usize(max + 1),
        };
        (0..n).map(|_| 0x21 + rng.usize(0x5E) as u8).collect()
    };
    let nc = match rng.usize(6) {
        0 => 0,
        1 => 1,
        2 => 255,
        _ => rng.usize(6),
    };
    SauceD {
        title: s(rng, 35),
        author: s(rng, 20),
        group: s(rng, 20),
        comments: (0..nc).map(|_| s(rng, 64)).collect(),
        ice: rng.bool(),
        letter_spacing: rng.bool(),
        aspect_ratio: rng.bool(),
        font: None,
        file_type: 0,
    }
}

/// cells of a buffer as a description (for reports)
pub fn describe_cell(c: &AttributedChar) -> String {
    format!(
        "ch={:#x} fg={} bg={} attr={:#06x} font={}",
        c.ch as u32,
        c.attribute.get_foreground(),
        c.attribute.get_background(),
        c.attribute.attr,
        c.attribute.get_font_page()
    )
}

pub fn layer_pos(x: i32, y: i32) -> Position {
    Position::new(x, y)
}

pub fn buffer_dims(b: &Buffer) -> (i32, i32) {
    (b.get_width(), b.get_height())
}
