//! Worker-side context: write-ahead journal, violation records, evidence counters.
use std::collections::{BTreeMap, HashSet};
use std::fs::File;
use std::io::Write;

use serde_json::{json, Value};

use crate::mon::{msg_template, PanicKind, PanicRec};
use crate::rng::{hash_str, Rng};

#[derive(Clone, Copy, Debug, PartialEq, Eq)]
pub enum Tier {
    Quick,
    Thorough,
}

impl Tier {
    pub fn name(self) -> &'static str {
        match self {
            Tier::Quick => "quick",
            Tier::Thorough => "thorough",
        }
    }
    pub fn pick<T>(self, quick: T, thorough: T) -> T {
        match self {
            Tier::Quick => quick,
            Tier::Thorough => thorough,
        }
    }
}

pub struct Ctx {
    pub prop: String,
    pub tier: Tier,
    pub seed: u64,
    pub shard: u64,
    pub nshards: u64,
    pub plain: bool,
    pub replay: bool,
    journal: Option<File>,
    pub cur_case: u64,
    pub evaluations: u64,
    pub fingerprints: HashSet<u64>,
    pub counters: BTreeMap<String, u64>,
    pub samples: Vec<Value>,
    pub max_samples: usize,
    pub violations: u64,
    seen_sigs: BTreeMap<String, u64>,
    pub notes: Vec<String>,
}

const MAX_FP: usize = 60_000;
const MAX_REC_PER_SIG: u64 = 3;

impl Ctx {
    pub fn new(prop: &str, tier: Tier, seed: u64, shard: u64, nshards: u64, plain: bool, journal: Option<File>) -> Self {
        Ctx {
            prop: prop.to_string(),
            tier,
            seed,
            shard,
            nshards,
            plain,
            replay: false,
            journal,
            cur_case: 0,
            evaluations: 0,
            fingerprints: HashSet::new(),
            counters: BTreeMap::new(),
            samples: Vec::new(),
            max_samples: 6,
            violations: 0,
            seen_sigs: BTreeMap::new(),
            notes: Vec::new(),
        }
    }

    pub fn rng(&self, k: u64) -> Rng {
        Rng::for_case(self.seed, &self.prop, self.tier.name(), k)
    }

    /// sub-stream of case `k`
    pub fn rng2(&self, k: u64, salt: &str) -> Rng {
        Rng::for_case(self.seed ^ hash_str(salt), &self.prop, self.tier.name(), k)
    }

    fn emit(&mut self, line: &str) {
        if let Some(j) = &mut self.journal {
            let _ = j.write_all(line.as_bytes());
            let _ = j.write_all(b"\n");
        } else {
            println!("{line}");
        }
    }

    /// write-ahead mark: case `k` is about to run. `desc` should allow a human
    /// (and the supervisor) to re-create the case if the process dies in it.
    pub fn begin(&mut self, k: u64) {
        self.cur_case = k;
        self.evaluations += 1;
        let l = format!("B {k}");
        self.emit(&l);
    }

    pub fn begin_with(&mut self, k: u64, case: &Value) {
        self.cur_case = k;
        self.evaluations += 1;
        let l = format!("B {k} {case}");
        self.emit(&l);
    }

    pub fn fp(&mut self, h: u64) {
        if self.fingerprints.len() < MAX_FP {
            self.fingerprints.insert(h);
        }
    }

    pub fn fp_str(&mut self, s: &str) {
        self.fp(hash_str(s));
    }

    pub fn count(&mut self, name: &str, n: u64) {
        *self.counters.entry(name.to_string()).or_insert(0) += n;
    }

    pub fn max(&mut self, name: &str, n: u64) {
        let e = self.counters.entry(name.to_string()).or_insert(0);
        if n > *e {
            *e = n;
        }
    }

    pub fn sample(&mut self, v: Value) {
        if self.samples.len() < self.max_samples {
            self.samples.push(v);
        }
    }

    pub fn want_sample(&self) -> bool {
        self.samples.len() < self.max_samples
    }

    /// Report a violation. `key` is the signature used for known-finding
    /// matching (the supervisor may refine panic keys with source text).
    pub fn violation(&mut self, key: &str, detail: Value, case: Value) {
        self.violations += 1;
        let n = self.seen_sigs.entry(key.to_string()).or_insert(0);
        *n += 1;
        if *n > MAX_REC_PER_SIG && !self.replay {
            return;
        }
        let rec = json!({"V": {"k": self.cur_case, "key": key, "detail": detail, "case": case}});
        let l = rec.to_string();
        self.emit(&l);
    }

    /// Write-ahead copy of a violation that is about to be shrunk. Shrinking re-executes variants of the failing input;
    /// one of them may kill the worker (allocation failure, stack overflow). The supervisor promotes a pending record
    /// to a violation when the final record for the same case never arrives.
    pub fn violation_pending(&mut self, key: &str, detail: Value, case: Value) {
        if self.replay {
            return;
        }
        let rec = json!({"PV": {"k": self.cur_case, "key": key, "detail": detail, "case": case}});
        let l = rec.to_string();
        self.emit(&l);
    }

    /// how often this key was reported already in this worker
    pub fn seen(&self, key: &str) -> u64 {
        self.seen_sigs.get(key).copied().unwrap_or(0)
    }

    /// Violation from a panic record. Budget panics are resource events.
    pub fn panic_violation(&mut self, api: &str, p: &PanicRec, case: Value) {
        let (key, detail) = panic_key(api, p);
        self.violation(&key, detail, case);
    }

    pub fn note(&mut self, s: impl Into<String>) {
        if self.notes.len() < 50 {
            self.notes.push(s.into());
        }
    }

    pub fn start_marker(&mut self) {
        self.emit("{\"W\":1}");
    }

    /// cumulative summary of this process so far (survives a later death of the worker)
    pub fn checkpoint(&mut self) {
        self.summary("P");
    }

    pub fn finish(&mut self) {
        self.summary("S");
        self.emit("{\"E\":1}");
        if let Some(j) = &mut self.journal {
            let _ = j.flush();
        }
    }

    fn summary(&mut self, tag: &str) {
        let mut fps: Vec<u64> = self.fingerprints.iter().copied().collect();
        fps.sort_unstable();
        let sigs: BTreeMap<String, u64> = self.seen_sigs.clone();
        let rec = json!({tag: {
            "shard": self.shard,
            "evaluations": self.evaluations,
            "fingerprints": fps,
            "counters": self.counters,
            "samples": self.samples,
            "violations": self.violations,
            "sig_counts": sigs,
            "notes": self.notes,
        }});
        let l = rec.to_string();
        self.emit(&l);
    }
}

pub fn panic_key(api: &str, p: &PanicRec) -> (String, Value) {
    let file = p.file.strip_prefix("/repo/").unwrap_or(&p.file).to_string();
    let (kind, key) = match &p.kind {
        PanicKind::Engine => ("panic", format!("panic|{}|{}:{}|{}", api, file, p.line, msg_template(&p.msg))),
        PanicKind::WorkBudget { .. } => ("work-budget", format!("resource|{api}|work-budget")),
        PanicKind::DepthBudget { site, .. } => ("depth-budget", format!("resource|{api}|depth-budget|{site}")),
        PanicKind::BlockBudget { .. } => ("block-budget", format!("resource|{api}|block-budget")),
        PanicKind::Harness => ("harness-panic", format!("harness|{}|{}:{}|{}", api, file, p.line, msg_template(&p.msg))),
    };
    let detail = json!({
        "kind": kind,
        "file": file,
        "line": p.line,
        "msg": p.msg.chars().take(300).collect::<String>(),
        "thread": p.thread,
        "frames": p.frames,
        "panic_kind": format!("{:?}", p.kind),
    });
    (key, detail)
}
