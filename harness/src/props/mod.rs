pub mod c18;
pub mod c19;

use crate::Prop;

pub fn by_id(id: &str) -> Option<Box<dyn Prop>> {
    match id {
        "C18" => Some(Box::new(c18::C18::default())),
        "C19" => Some(Box::new(c19::C19::default())),
        _ => None,
    }
}
