//! C03 — work per input is bounded by screen size, not by numbers in the input.
//!
//! Monitors: (1) absolute work bound on the tick counter (hook H1), (2) saturation
//! (metamorphic) monitor: the same sequence with its numeric slots at growing
//! magnitudes must not do more work / allocate more, (3) allocation monitor
//! (counting global allocator), (4) nesting monitor (hook H2), (5) CPU-time
//! backstop for loops without ticks.
use serde::{Deserialize, Serialize};
use serde_json::{json, Value};

use crate::ctx::Ctx;
use crate::gen_stream::CSI_INTERMEDIATES;
use crate::mon::{guarded, Budgets, Measure, Outcome, PanicKind};
use crate::stream::{printable, run_stream, RunOpts, StreamCase};
use crate::Prop;

#[derive(Clone, Debug, Serialize, Deserialize)]
pub enum Part {
    L(Vec<u8>),
    /// numeric slot that takes the magnitude under test
    B,
    /// the same as a big-endian 32-bit field (binary formats that store big-endian numbers)
    Be,
}

#[derive(Clone, Debug, Serialize, Deserialize)]
pub struct Tmpl {
    pub family: String,
    /// "stream" (ANSI unless emu given), "sixel" (Sixel::parse_from), "font" (BitFont::from_bytes, slots are LE u32), "file:<ext>"
    pub kind: String,
    #[serde(default)]
    pub emu: String,
    pub w: i32,
    pub h: i32,
    /// 0 fresh (rows unallocated), 1 full screen, 2 full + scrollback
    pub screen: u8,
    pub parts: Vec<Part>,
}

pub const MAGS: [i64; 4] = [0, 65536, 1_000_000, 2_147_483_647]; // MAGS[0] is replaced by w*h+1

fn render(t: &Tmpl, mag: i64) -> Vec<u8> {
    let mut out = Vec::new();
    for p in &t.parts {
        match p {
            Part::L(b) => out.extend_from_slice(b),
            Part::B => {
                if t.kind == "font" || t.kind.starts_with("file:") {
                    out.extend_from_slice(&(mag as u32).to_le_bytes());
                } else {
                    out.extend_from_slice(mag.to_string().as_bytes());
                }
            }
            Part::Be => out.extend_from_slice(&(mag as u32).to_be_bytes()),
        }
    }
    out
}

fn screen_prefix(w: i32, h: i32, screen: u8) -> Vec<u8> {
    let mut v = Vec::new();
    if screen >= 1 {
        let rows = if screen == 2 { h + h / 2 + 2 } else { h };
        for r in 0..rows {
            for c in 0..w {
                v.push(b'a' + ((r + c) % 26) as u8);
            }
            if w == 1 || r + 1 == rows {
                // the full row already wrapped
            }
        }
        v.extend_from_slice(b"\x1b[H");
        let (y, x) = (h / 2 + 1, w / 2 + 1);
        v.extend_from_slice(format!("\x1b[{y};{x}H").as_bytes());
    }
    v
}

/// terminal modes a control function may meet: 0 none, 1 top/bottom margins, 2 top/bottom + left/right margins with origin mode
fn mode_prefix(w: i32, h: i32, mode: u8) -> Vec<u8> {
    let mut v = Vec::new();
    if mode >= 1 {
        v.extend_from_slice(format!("\x1b[{};{}r", 2.min(h), (h - 1).max(1)).as_bytes());
    }
    if mode >= 2 {
        v.extend_from_slice(format!("\x1b[?69h\x1b[{};{}s\x1b[?6h", 2.min(w), (w - 1).max(1)).as_bytes());
    }
    if mode >= 1 {
        let (y, x) = (h / 2 + 1, w / 2 + 1);
        v.extend_from_slice(format!("\x1b[{y};{x}H").as_bytes());
    }
    v
}

#[derive(Debug, Default, Clone)]
struct Run {
    ticks: u64,
    peak: u64,
    depth: u32,
    cpu_ms: u64,
    budget_hit: Option<String>,
    panicked: bool,
    n: usize,
}

fn stream_bound(n: usize, w: i32, h: i32) -> u64 {
    let (w, h) = (w as u64, h as u64);
    16 * (n as u64 + 1) * w * h * w.max(h) + 4096
}

/// macros legitimately replay up to 65536 characters per invocation (a constant of the
/// engine, not a number from the input); each replayed character costs at most a scroll
fn macro_allowance(t: &Tmpl, n: usize) -> u64 {
    if t.family.starts_with("macro") {
        (n as u64 / 5 + 1) * 65536 * (2 * t.w as u64 * t.h as u64 + 8)
    } else {
        0
    }
}

const FILE_BOUND_PER_BYTE: u64 = 64 * 65536;
const ALLOC_BOUND: u64 = 64 << 20;
const DEPTH_BOUND: u32 = 32;

fn run_once(t: &Tmpl, mag: i64) -> Run {
    let bytes = render(t, mag);
    let mut r = Run {
        n: bytes.len(),
        ..Default::default()
    };
    let fill = |r: &mut Run, m: &Measure| {
        r.ticks = m.ticks;
        r.peak = m.alloc.peak_over_base as u64;
        r.depth = m.max_depth;
        r.cpu_ms = m.cpu_ns / 1_000_000;
    };
    match t.kind.as_str() {
        "stream" => {
            let mut prefix = screen_prefix(t.w, t.h, t.screen % 3);
            prefix.extend(mode_prefix(t.w, t.h, t.screen / 3));
            // the prefix is legitimate work: measure it separately and subtract
            let emu = if t.emu.is_empty() { "ansi".to_string() } else { t.emu.clone() };
            let base_case = StreamCase {
                emu: emu.clone(),
                music: 0,
                w: t.w,
                h: t.h,
                alloc: t.screen % 3 != 0,
                prefix: prefix.clone(),
                bytes: vec![],
            };
            let bound = stream_bound(bytes.len(), t.w, t.h) + macro_allowance(t, bytes.len());
            let opts = RunOpts {
                graphics: false,
                check_geometry: false,
                budgets: Budgets {
                    work: stream_bound(prefix.len(), t.w, t.h) + bound + 1,
                    depth: DEPTH_BOUND,
                    block_ms: -1,
                },
                thread_budget: bound + 1,
            };
            let (o0, _) = run_stream(&base_case, opts);
            let mut case = base_case.clone();
            case.bytes = bytes;
            let (o, _) = run_stream(&case, opts);
            fill(&mut r, &o.measure);
            r.ticks = r.ticks.saturating_sub(o0.measure.ticks);
            r.peak = r.peak.saturating_sub(o0.measure.alloc.peak_over_base as u64);
            if let Some((_, p)) = &o.panic {
                match &p.kind {
                    PanicKind::WorkBudget { .. } => r.budget_hit = Some("work".into()),
                    PanicKind::DepthBudget { .. } => r.budget_hit = Some("depth".into()),
                    _ => r.panicked = true,
                }
            }
            for p in &o.thread_panics {
                if let PanicKind::WorkBudget { .. } = p.kind {
                    r.budget_hit = Some("work(decode thread)".into());
                }
            }
        }
        "sixel" => {
            let s: String = bytes.iter().map(|b| *b as char).collect();
            let bound = 64 * (bytes.len() as u64 + 1) * 64;
            let (out, m) = guarded(
                Budgets {
                    work: bound + 1,
                    depth: DEPTH_BOUND,
                    block_ms: -1,
                },
                || icy_engine::Sixel::parse_from(icy_engine::Position::default(), 1, 2, [0, 0, 0, 0], &s).map(|s| s.picture_data.len()),
            );
            fill(&mut r, &m);
            if let Outcome::Panicked(p) = out {
                match p.kind {
                    PanicKind::WorkBudget { .. } => r.budget_hit = Some("work".into()),
                    _ => r.panicked = true,
                }
            }
        }
        "font" => {
            let bound = FILE_BOUND_PER_BYTE * (bytes.len() as u64 + 1);
            let (out, m) = guarded(
                Budgets {
                    work: bound + 1,
                    depth: DEPTH_BOUND,
                    block_ms: -1,
                },
                || icy_engine::BitFont::from_bytes("f", &bytes).map(|f| f.length),
            );
            fill(&mut r, &m);
            if let Outcome::Panicked(p) = out {
                match p.kind {
                    PanicKind::WorkBudget { .. } => r.budget_hit = Some("work".into()),
                    _ => r.panicked = true,
                }
            }
        }
        k if k.starts_with("load|") => {
            // "load|<api>|<ext>": a file of the seed corpus with a header field at an extreme
            let mut it = k.splitn(3, '|');
            let _ = it.next();
            let api = it.next().unwrap_or("buf").to_string();
            let ext = it.next().unwrap_or("").to_string();
            let bound = FILE_BOUND_PER_BYTE * (bytes.len() as u64 + 1);
            let case = crate::files::LoadCase {
                api,
                ext,
                bytes,
                origin: String::new(),
            };
            let (out, m) = crate::files::run_load(
                &case,
                Budgets {
                    work: bound + 1,
                    depth: DEPTH_BOUND,
                    block_ms: -1,
                },
            );
            let _ = crate::mon::take_other_thread_panics();
            fill(&mut r, &m);
            if let Outcome::Panicked(p) = out {
                match p.kind {
                    PanicKind::WorkBudget { .. } => r.budget_hit = Some("work".into()),
                    _ => r.panicked = true,
                }
            }
        }
        k if k.starts_with("file:") || k.starts_with("textfile:") => {
            let ext = k.split_once(':').map(|x| x.1).unwrap_or("ans");
            let bound = FILE_BOUND_PER_BYTE * (bytes.len() as u64 + 1);
            let name = std::path::PathBuf::from(format!("x.{ext}"));
            let (out, m) = guarded(
                Budgets {
                    work: bound + 1,
                    depth: DEPTH_BOUND,
                    block_ms: -1,
                },
                || {
                    let r = icy_engine::Buffer::from_bytes(&name, false, &bytes).map(|mut b| {
                        b.sixel_threads.clear();
                        0
                    });
                    r.is_ok()
                },
            );
            let _ = crate::stream::wait_decodes_idle();
            let _ = crate::mon::take_other_thread_panics();
            fill(&mut r, &m);
            if let Outcome::Panicked(p) = out {
                match p.kind {
                    PanicKind::WorkBudget { .. } => r.budget_hit = Some("work".into()),
                    _ => r.panicked = true,
                }
            }
        }
        _ => {}
    }
    r
}

fn abs_bound(t: &Tmpl, n: usize) -> u64 {
    match t.kind.as_str() {
        "stream" => stream_bound(n, t.w, t.h) + macro_allowance(t, n),
        "sixel" => 64 * (n as u64 + 1) * 64,
        _ => FILE_BOUND_PER_BYTE * (n as u64 + 1),
    }
}

#[derive(Default)]
pub struct C03 {
    seeds: Vec<crate::files::Seed>,
    /// (seed, text chunk of an IcyDraw file - None for the file's own bytes) targets of the header-field class
    file_targets: Vec<(usize, Option<usize>)>,
    n_files: u64,
    n_csi: u64,
    n_modes: u64,
    n_special: u64,
    n_textfile: u64,
    n_filenum: u64,
    num_runs: Vec<(usize, usize, usize)>,
    specials: Vec<Tmpl>,
    csi_full: u64,
}

const SCREENS: [(i32, i32); 3] = [(80, 25), (132, 60), (7, 3)];

/// vectors of length 0..=6 over {0, 1, size, BIG}: index -> vector (digits base 4), by length blocks
fn vec_count(max_len: u32) -> u64 {
    (0..=max_len).map(|l| 4u64.pow(l)).sum()
}

fn decode_vec(mut idx: u64) -> Vec<u8> {
    let mut len = 0u32;
    loop {
        let c = 4u64.pow(len);
        if idx < c {
            break;
        }
        idx -= c;
        len += 1;
    }
    (0..len).map(|i| ((idx / 4u64.pow(i)) % 4) as u8).collect()
}

impl C03 {
    fn csi_tmpl(&self, k: u64, mode: u8) -> Tmpl {
        let mut r = k;
        let screen = (r % 3) as u8 + 3 * mode;
        r /= 3;
        let (w, h) = SCREENS[(r % 3) as usize];
        r /= 3;
        let fin = 0x40 + (r % 63) as u8;
        r /= 63;
        let inter = CSI_INTERMEDIATES[(r % 8) as usize];
        r /= 8;
        let vec = decode_vec(r);
        let mut parts: Vec<Part> = Vec::new();
        let mut lit: Vec<u8> = b"\x1b[".to_vec();
        let is_prefix = matches!(inter, "?" | "=" | "!" | "<");
        if is_prefix {
            lit.extend_from_slice(inter.as_bytes());
        }
        for (i, v) in vec.iter().enumerate() {
            if i > 0 {
                lit.push(b';');
            }
            match v {
                0 => lit.push(b'0'),
                1 => lit.push(b'1'),
                2 => lit.extend_from_slice(w.max(h).to_string().as_bytes()),
                _ => {
                    parts.push(Part::L(std::mem::take(&mut lit)));
                    parts.push(Part::B);
                }
            }
        }
        if !is_prefix {
            lit.extend_from_slice(inter.as_bytes());
        }
        lit.push(fin);
        // the function must also leave a state in which ordinary output is cheap
        lit.extend_from_slice(b"ab\r\nc");
        parts.push(Part::L(lit));
        Tmpl {
            family: format!("CSI {}{}", inter, fin as char),
            kind: "stream".into(),
            emu: String::new(),
            w,
            h,
            screen,
            parts,
        }
    }

    fn build_specials(&mut self) {
        let mut v: Vec<Tmpl> = Vec::new();
        let lit = |s: &[u8]| Part::L(s.to_vec());
        let mut add = |family: &str, kind: &str, emu: &str, parts: Vec<Part>| {
            for (si, (w, h)) in SCREENS.iter().enumerate() {
                if kind != "stream" && si > 0 {
                    continue;
                }
                for screen in 0..3u8 {
                    if kind != "stream" && screen > 0 {
                        continue;
                    }
                    v.push(Tmpl {
                        family: family.into(),
                        kind: kind.into(),
                        emu: emu.into(),
                        w: *w,
                        h: *h,
                        screen,
                        parts: parts.clone(),
                    });
                }
            }
        };
        // --- ESC functions after margins with a huge bottom / right margin
        add("margins-then-scroll", "stream", "", vec![lit(b"\x1b[1;"), Part::B, lit(b"r\x1b[S\x1b[T\x1bD\x1bM\n\n")]);
        add("lr-margins-then-scroll", "stream", "", vec![lit(b"\x1b[?69h\x1b[1;"), Part::B, lit(b"s\x1b[ @\x1b[ A\x1b[S\n")]);
        add("ssm-then-scroll", "stream", "", vec![lit(b"\x1b[=1;"), Part::B, lit(b"m\x1b[=3;"), Part::B, lit(b"m\x1b[S\x1b[T\x1b[ @\n")]);
        add("csr-then-scroll", "stream", "", vec![lit(b"\x1b[1;"), Part::B, lit(b";1;"), Part::B, lit(b"r\x1b[S\x1b[ A\x1bM")]);
        add("cup-then-output", "stream", "", vec![lit(b"\x1b["), Part::B, lit(b";"), Part::B, lit(b"Hxyz\r\n\x1b[J\x1b[1J\x1b[K\x1b[2K")]);
        add("rect-fill", "stream", "", vec![lit(b"\x1b[65;1;1;"), Part::B, lit(b";"), Part::B, lit(b"$x")]);
        add("rect-erase", "stream", "", vec![lit(b"\x1b[1;1;"), Part::B, lit(b";"), Part::B, lit(b"$z")]);
        add("rect-selective-erase", "stream", "", vec![lit(b"\x1b[1;1;"), Part::B, lit(b";"), Part::B, lit(b"${")]);
        add("rect-checksum", "stream", "", vec![lit(b"\x1b[1;1;0;0;"), Part::B, lit(b";"), Part::B, lit(b"*y")]);
        add("window-resize", "stream", "", vec![lit(b"\x1b[8;"), Part::B, lit(b";"), Part::B, lit(b"tabc\r\n\x1b[S")]);
        add("tab-stops", "stream", "", vec![lit(b"\x1b["), Part::B, lit(b"G\x1bH\x1b["), Part::B, lit(b" d\x09\x09\x1b[I\x1b[Z")]);
        add("sgr-colours", "stream", "", vec![lit(b"\x1b[38;5;"), Part::B, lit(b"m\x1b[48;2;"), Part::B, lit(b";"), Part::B, lit(b";"), Part::B, lit(b"mx")]);
        add("select-24bit", "stream", "", vec![lit(b"\x1b[1;"), Part::B, lit(b";"), Part::B, lit(b";"), Part::B, lit(b"tx")]);
        add("font-select", "stream", "", vec![lit(b"\x1b["), Part::B, lit(b";"), Part::B, lit(b" D")]);
        add("baud", "stream", "", vec![lit(b"\x1b["), Part::B, lit(b";"), Part::B, lit(b"*r")]);
        add("osc-palette", "stream", "", vec![lit(b"\x1b]4;"), Part::B, lit(b";rgb:00/00/00\x1b\\")]);
        add("music-lengths", "stream", "", vec![lit(b"\x1b[|T"), Part::B, lit(b"L"), Part::B, lit(b"C"), Part::B, lit(b"P"), Part::B, lit(b"\x0e")]);
        // --- the same counted function twenty times in a row: a clamp that is computed from state the function itself grows
        // (scrollback length, allocated rows, tab stops) lets the work double with every repetition
        for (inter, fin) in [("", 'b'), ("", '@'), ("", 'P'), ("", 'L'), ("", 'M'), ("", 'S'), ("", 'T'), ("", 'X'), ("", 'I'), ("", 'Z'), ("", 'Y'), ("", 'a'), ("", 'e'), ("", 'B'), ("", 'C'), ("", 'E'), (" ", '@'), (" ", 'A'), ("", 'J'), ("", 'K')] {
            let mut parts = vec![lit(b"A")];
            for _ in 0..20 {
                parts.push(lit(b"\x1b["));
                parts.push(Part::B);
                parts.push(lit(format!("{inter}{fin}").as_bytes()));
            }
            parts.push(lit(b"z\r\n"));
            add(&format!("x20 CSI {inter}{fin}"), "stream", "", parts);
        }
        // --- macros
        add("macro-define-id", "stream", "", vec![lit(b"\x1bP"), Part::B, lit(b";0;0!zabc\x1b\\\x1b["), Part::B, lit(b"*z")]);
        add("macro-self-recursive", "stream", "", vec![lit(b"\x1bP1;0;0!zx\x1b[1*z\x1b\\\x1b[1*z")]);
        add("macro-mutually-recursive", "stream", "", vec![lit(b"\x1bP1;0;0!za\x1b[2*z\x1b\\\x1bP2;0;0!zb\x1b[1*z\x1b\\\x1b[1*z")]);
        add("macro-doubling", "stream", "", vec![lit(
            b"\x1bP1;0;0!zxxxxxxxx\x1b\\\x1bP2;0;0!z\x1b[1*z\x1b[1*z\x1b\\\x1bP3;0;0!z\x1b[2*z\x1b[2*z\x1b\\\x1bP4;0;0!z\x1b[3*z\x1b[3*z\x1b\\\x1bP5;0;0!z\x1b[4*z\x1b[4*z\x1b\\\x1bP6;0;0!z\x1b[5*z\x1b[5*z\x1b\\\x1bP7;0;0!z\x1b[6*z\x1b[6*z\x1b\\\x1bP8;0;0!z\x1b[7*z\x1b[7*z\x1b\\\x1bP9;0;0!z\x1b[8*z\x1b[8*z\x1b\\\x1bP10;0;0!z\x1b[9*z\x1b[9*z\x1b\\\x1bP11;0;0!z\x1b[10*z\x1b[10*z\x1b\\\x1bP12;0;0!z\x1b[11*z\x1b[11*z\x1b\\\x1bP13;0;0!z\x1b[12*z\x1b[12*z\x1b\\\x1bP14;0;0!z\x1b[13*z\x1b[13*z\x1b\\\x1bP15;0;0!z\x1b[14*z\x1b[14*z\x1b\\\x1bP16;0;0!z\x1b[15*z\x1b[15*z\x1b\\\x1bP17;0;0!z\x1b[16*z\x1b[16*z\x1b\\\x1bP18;0;0!z\x1b[17*z\x1b[17*z\x1b\\\x1bP19;0;0!z\x1b[18*z\x1b[18*z\x1b\\\x1bP20;0;0!z\x1b[19*z\x1b[19*z\x1b\\\x1b[20*z",
        )]);
        // hex-defined macros can contain DECINVM (ESC [ n * z = 1B5B..2A7A) and so invoke themselves / each other
        add("macro-hex-self-recursive", "stream", "", vec![lit(b"\x1bP1;0;1!z781B5B312A7A\x1b\\\x1b[1*z")]);
        add("macro-hex-self-recursive-twice", "stream", "", vec![lit(b"\x1bP1;0;1!z1B5B312A7A1B5B312A7A\x1b\\\x1b[1*z")]);
        // fan-out k: the body prints one character and invokes itself k times; only a budget shared by all nested
        // invocations keeps this from costing k^depth replays
        for k in [3usize, 4, 8, 16] {
            let mut def = b"\x1bP1;0;1!z58".to_vec();
            for _ in 0..k {
                def.extend_from_slice(b"1B5B312A7A");
            }
            def.extend_from_slice(b"\x1b\\\x1b[1*z");
            add(&format!("macro-hex-self-recursive-fanout-{k}"), "stream", "", vec![lit(&def)]);
        }
        // a macro can also be invoked from inside a DCS string (ESC P ESC [ n * z): the body opens a DCS and invokes itself
        add("macro-hex-recursive-through-dcs-0", "stream", "", vec![lit(b"\x1bP0;0;1!z1B501B5B302A7A\x1b\\\x1b[0*z")]);
        add("macro-hex-recursive-through-dcs-1", "stream", "", vec![lit(b"\x1bP1;0;1!z781B501B5B312A7A\x1b\\\x1b[1*z")]);
        add("macro-hex-recursive-through-dcs-mutual", "stream", "", vec![lit(b"\x1bP0;0;1!z1B501B5B312A7A\x1b\\\x1bP1;0;1!z611B501B5B302A7A\x1b\\\x1b[0*z\x1b[1*z")]);
        add("macro-hex-mutually-recursive", "stream", "", vec![lit(b"\x1bP1;0;1!z611B5B322A7A\x1b\\\x1bP2;0;1!z621B5B312A7A\x1b\\\x1b[1*z")]);
        add("macro-hex-doubling-chain", "stream", "", vec![lit(
            b"\x1bP1;0;1!z0A0A0A0A\x1b\\\x1bP2;0;1!z1B5B312A7A1B5B312A7A\x1b\\\x1bP3;0;1!z1B5B322A7A1B5B322A7A\x1b\\\x1bP4;0;1!z1B5B332A7A1B5B332A7A\x1b\\\x1bP5;0;1!z1B5B342A7A1B5B342A7A\x1b\\\x1bP6;0;1!z1B5B352A7A1B5B352A7A\x1b\\\x1bP7;0;1!z1B5B362A7A1B5B362A7A\x1b\\\x1bP8;0;1!z1B5B372A7A1B5B372A7A\x1b\\\x1bP9;0;1!z1B5B382A7A1B5B382A7A\x1b\\\x1bP10;0;1!z1B5B392A7A1B5B392A7A\x1b\\\x1bP11;0;1!z1B5B31302A7A1B5B31302A7A\x1b\\\x1bP12;0;1!z1B5B31312A7A1B5B31312A7A\x1b\\\x1bP13;0;1!z1B5B31322A7A1B5B31322A7A\x1b\\\x1bP14;0;1!z1B5B31332A7A1B5B31332A7A\x1b\\\x1bP15;0;1!z1B5B31342A7A1B5B31342A7A\x1b\\\x1bP16;0;1!z1B5B31352A7A1B5B31352A7A\x1b\\\x1b[16*z\x1b[16*z\x1b[16*z",
        )]);
        add("macro-hex-repeat-of-linefeeds", "stream", "", vec![lit(b"\x1bP1;0;1!z!"), Part::B, lit(b";0A;\x1b\\\x1b[1*z\x1b[1*z")]);
        add("macro-hex-empty-repeat", "stream", "", vec![lit(b"\x1bP1;0;1!z!"), Part::B, lit(b";;41\x1b\\")]);
        add("macro-in-dcs-recursive", "stream", "", vec![lit(b"\x1bP1;0;0!zq\x1b\\\x1bP1;0;0!z\x1b[1*z\x1b[1*z\x1b\\\x1b[1*z")]);
        add("macro-hex-repeat", "stream", "", vec![lit(b"\x1bP1;0;1!z!"), Part::B, lit(b";4142;\x1b\\\x1b[1*z")]);
        add("macro-hex-repeat-unterminated", "stream", "", vec![lit(b"\x1bP1;0;1!z!"), Part::B, lit(b";41\x1b\\")]);
        add("macro-hex-nested-repeat", "stream", "", vec![lit(b"\x1bP1;0;1!z!"), Part::B, lit(b";!"), Part::B, lit(b";41;;\x1b\\")]);
        // --- sixel through the terminal and directly
        add("sixel-raster-wh", "stream", "", vec![lit(b"\x1bPq\"1;1;"), Part::B, lit(b";"), Part::B, lit(b"#1~\x1b\\")]);
        add("sixel-raster-h", "stream", "", vec![lit(b"\x1bPq\"1;1;"), Part::B, lit(b"#1~\x1b\\")]);
        add("sixel-repeat", "stream", "", vec![lit(b"\x1bPq#1!"), Part::B, lit(b"~\x1b\\")]);
        add("sixel-raster-wh", "sixel", "", vec![lit(b"\"1;1;"), Part::B, lit(b";"), Part::B, lit(b"#1~")]);
        add("sixel-raster-w-only-big", "sixel", "", vec![lit(b"\"1;1;"), Part::B, lit(b";1#1~")]);
        add("sixel-raster-h-only-big", "sixel", "", vec![lit(b"\"1;1;1;"), Part::B, lit(b"#1~")]);
        add("sixel-raster-3", "sixel", "", vec![lit(b"\"1;1;"), Part::B, lit(b"#1~")]);
        add("sixel-repeat", "sixel", "", vec![lit(b"#1!"), Part::B, lit(b"~")]);
        add("sixel-repeat-newline", "sixel", "", vec![lit(b"#1!"), Part::B, lit(b"-~")]);
        add("sixel-repeat-cr", "sixel", "", vec![lit(b"#1!"), Part::B, lit(b"$~")]);
        add("sixel-colour-select", "sixel", "", vec![lit(b"#"), Part::B, lit(b"~#"), Part::B, lit(b";2;"), Part::B, lit(b";"), Part::B, lit(b";"), Part::B, lit(b"~")]);
        add("sixel-colour-hls", "sixel", "", vec![lit(b"#1;1;"), Part::B, lit(b";"), Part::B, lit(b";"), Part::B, lit(b"~")]);
        add("sixel-many-newlines", "sixel", "", vec![lit(b"!"), Part::B, lit(b"-~")]);
        // the colour register alone is the big number: selection, RGB and HLS definition, directly and through the terminal
        add("sixel-register-select", "sixel", "", vec![lit(b"#"), Part::B, lit(b"~~")]);
        add("sixel-register-rgb", "sixel", "", vec![lit(b"#"), Part::B, lit(b";2;50;60;70~~")]);
        add("sixel-register-hls", "sixel", "", vec![lit(b"#"), Part::B, lit(b";1;120;50;100~~")]);
        add("sixel-register-hls-all", "sixel", "", vec![lit(b"#"), Part::B, lit(b";1;"), Part::B, lit(b";"), Part::B, lit(b";"), Part::B, lit(b"~")]);
        add("sixel-register-rgb", "stream", "", vec![lit(b"\x1bPq#"), Part::B, lit(b";2;50;60;70~~\x1b\\")]);
        add("sixel-register-hls", "stream", "", vec![lit(b"\x1bPq#"), Part::B, lit(b";1;120;50;100~~\x1b\\")]);
        // --- avatar repeat (count is one byte: nothing to scale, absolute bound only)
        add("avatar-repeat", "stream", "avatar", vec![lit(b"\x19x\xff\x19\x19\xff\x16\x08\xff\xff\x19y\xff")]);
        // --- custom font DCS payloads and font files
        let b64 = |d: &[u8]| -> Vec<u8> {
            use base64::Engine;
            base64::engine::general_purpose::STANDARD.encode(d).into_bytes()
        };
        for (name, data) in [
            ("psf1-height-0", vec![0x36u8, 0x04, 0, 0, 1, 2, 3, 4, 5, 6, 7, 8]),
            ("psf1-height-1", vec![0x36u8, 0x04, 0, 1, 1, 2, 3, 4, 5, 6, 7, 8]),
            ("psf1-height-255", {
                let mut d = vec![0x36u8, 0x04, 1, 255];
                d.extend(vec![0xAA; 512]);
                d
            }),
        ] {
            let mut s = b"\x1bPCTerm:Font:5:".to_vec();
            s.extend(b64(&data));
            s.extend_from_slice(b"\x1b\\");
            add(&format!("dcs-font-{name}"), "stream", "", vec![Part::L(s)]);
            add(&format!("font-{name}"), "font", "", vec![Part::L(data.clone())]);
        }
        // PSF2 header: magic, version, headersize, flags, length, charsize, height, width
        let psf2 = |slots: [Option<u32>; 7]| -> Vec<Part> {
            let mut parts = vec![Part::L(vec![0x72, 0xb5, 0x4a, 0x86])];
            for s in slots {
                match s {
                    Some(v) => parts.push(Part::L(v.to_le_bytes().to_vec())),
                    None => parts.push(Part::B),
                }
            }
            parts.push(Part::L(vec![0x55; 64]));
            parts
        };
        add("font-psf2-length", "font", "", psf2([Some(0), Some(32), Some(0), None, Some(16), Some(16), Some(8)]));
        add("font-psf2-charsize", "font", "", psf2([Some(0), Some(32), Some(0), Some(4), None, Some(16), Some(8)]));
        add("font-psf2-height", "font", "", psf2([Some(0), Some(32), Some(0), Some(4), Some(16), None, Some(8)]));
        add("font-psf2-width", "font", "", psf2([Some(0), Some(32), Some(0), Some(4), Some(16), Some(16), None]));
        add("font-psf2-headersize", "font", "", psf2([Some(0), None, Some(0), Some(4), Some(16), Some(16), Some(8)]));
        add("font-psf2-length-x-charsize-0", "font", "", psf2([Some(0), Some(96), Some(0), None, Some(0), Some(16), Some(8)]));
        add("font-psf2-all", "font", "", psf2([Some(0), Some(32), Some(0), None, None, None, None]));
        // --- Tundra position record (command 1, big-endian row and column): not produced by the engine's writer, so the
        // seed-file header mutations never reach it
        let tnd = |row: Option<u32>, col: Option<u32>| -> Vec<Part> {
            let mut parts = vec![Part::L(b"\x18TUNDRA24\x01".to_vec())];
            for f in [row, col] {
                match f {
                    Some(v) => parts.push(Part::L(v.to_be_bytes().to_vec())),
                    None => parts.push(Part::Be),
                }
            }
            parts.push(Part::L(b"AB".to_vec()));
            parts
        };
        add("file-tundra-position-row", "file:tnd", "", tnd(None, Some(0)));
        add("file-tundra-position-column", "file:tnd", "", tnd(Some(0), None));
        add("file-tundra-position-both", "file:tnd", "", tnd(None, None));
        // --- a short .ans *file* whose first command makes the file buffer as tall as a picture can be (a file buffer grows
        // with its content, up to 65535 rows), followed by one function that works on "the screen" - which in a file is the
        // whole picture: scrolls, line and character insertion, erasures, rectangles, repeat. Each input is shorter than 64
        // bytes; the count is the numeric slot
        for (name, cmd) in [
            ("S", &b"S"[..]), ("T", b"T"), ("SP@", b" @"), ("SPA", b" A"), ("L", b"L"), ("M", b"M"), ("@", b"@"), ("P", b"P"), ("X", b"X"), ("b", b"b"), ("J", b"J"), ("K", b"K"),
            ("E", b"E"), ("F", b"F"), ("d", b"d"), ("e", b"e"),
        ] {
            for (pos, home) in [("at the bottom", &b""[..]), ("at the top", b"\x1b[H")] {
                let mut parts = vec![lit(b"\x1b[65535;1Hx"), lit(home), lit(b"\x1b[")];
                parts.push(Part::B);
                parts.push(lit(cmd));
                add(&format!("tall-file CSI {name} {pos}"), "textfile:ans", "", parts);
            }
        }
        add("tall-file rect-fill", "textfile:ans", "", vec![lit(b"\x1b[65535;1Hx\x1b[65;1;1;"), Part::B, lit(b";"), Part::B, lit(b"$x")]);
        add("tall-file rect-erase", "textfile:ans", "", vec![lit(b"\x1b[65535;1Hx\x1b[1;1;"), Part::B, lit(b";"), Part::B, lit(b"$z")]);
        add("tall-file rect-copy", "textfile:ans", "", vec![lit(b"\x1b[65535;1Hx\x1b[1;1;"), Part::B, lit(b";"), Part::B, lit(b";1;2;2;1$v")]);
        add("tall-file margins-then-scroll", "textfile:ans", "", vec![lit(b"\x1b[65535;1Hx\x1b[1;"), Part::B, lit(b"r\x1b[S\x1b[T\x1bD\x1bM")]);
        // --- XBin headers that declare a picture and bring (almost) no data: width x height from two 16-bit fields. The
        // header-field class sets one field at a time in files that hold their data; here both are large and the data missing
        for (wd, ht) in [(80u16, 65535u16), (4096, 65535), (4096, 1000), (1, 65535), (4096, 25)] {
            for (flags, data) in [(0u8, &b""[..]), (0, b"A\x07"), (1 << 2, b""), (1 << 2, b"\xC3A\x07")] {
                let mut h = b"XBIN\x1a".to_vec();
                h.extend(wd.to_le_bytes());
                h.extend(ht.to_le_bytes());
                h.push(16);
                h.push(flags);
                h.extend_from_slice(data);
                add(&format!("file-xbin-bare-header {wd}x{ht} flags {flags} data {}", data.len()), "file:xb", "", vec![lit(&h)]);
            }
        }
        // --- rectangle functions with a single huge coordinate (the others stay on the screen): bottom only, right only, top
        // only, left only - a guard that tests the wrong one of the four lets the loop run
        for (name, head, tail) in [("fill", &b"\x1b[65;"[..], &b"$x"[..]), ("erase", b"\x1b[", b"$z"), ("selective-erase", b"\x1b[", b"${"), ("checksum", b"\x1b[1;1;", b"*y"), ("copy", b"\x1b[", b";1;2;2;1$v"), ("attr-change", b"\x1b[", b";1$r"), ("attr-reverse", b"\x1b[", b";1$t")] {
            for (which, pos) in [("top", 0usize), ("left", 1), ("bottom", 2), ("right", 3)] {
                let mut parts = vec![lit(head)];
                for i in 0..4 {
                    if i > 0 {
                        parts.push(lit(b";"));
                    }
                    if i == pos {
                        parts.push(Part::B);
                    } else {
                        parts.push(lit(if i < 2 { b"1" } else { b"5" }));
                    }
                }
                parts.push(lit(tail));
                add(&format!("rect-{name}-huge-{which}"), "stream", "", parts);
            }
        }
        // --- a macro defined under a huge id, then the functions that walk the macro table: checksum report, macro space
        // report, invocation of another id, reset
        add("macro-huge-id-then-checksum", "stream", "", vec![lit(b"\x1bP"), Part::B, lit(b";0;0!zx\x1b\\\x1b[?63;7n")]);
        add("macro-huge-id-then-space-report", "stream", "", vec![lit(b"\x1bP"), Part::B, lit(b";0;0!zx\x1b\\\x1b[?62n\x1b[5*z")]);
        add("macro-huge-id-then-delete-all", "stream", "", vec![lit(b"\x1bP"), Part::B, lit(b";0;0!zx\x1b\\\x1bP1;1;0!zy\x1b\\\x1bc")]);
        self.specials = v;
    }
}

#[derive(Debug)]
struct Finding {
    key: String,
    detail: Value,
}

fn analyse(t: &Tmpl, runs: &[(i64, Run)]) -> Vec<Finding> {
    let mut out = Vec::new();
    let fam = &t.family;
    for (mag, r) in runs {
        let bound = abs_bound(t, r.n);
        if let Some(b) = &r.budget_hit {
            if b == "depth" {
                out.push(Finding {
                    key: format!("nesting|{fam}"),
                    detail: json!({"what": "nesting depth exceeds bound", "bound": DEPTH_BOUND, "magnitude": mag}),
                });
            } else {
                out.push(Finding {
                    key: format!("work|{fam}"),
                    detail: json!({"what": "work exceeds the absolute bound (stopped by the work budget)", "budget": b, "bound_ticks": bound, "ticks_at_stop": r.ticks, "magnitude": mag, "input_len": r.n}),
                });
            }
        } else if r.ticks > bound {
            out.push(Finding {
                key: format!("work|{fam}"),
                detail: json!({"what": "work exceeds the absolute bound", "bound_ticks": bound, "ticks": r.ticks, "magnitude": mag, "input_len": r.n}),
            });
        }
        // run-length formats legitimately expand a 4-byte record to 65535 cells of 16 bytes
        let per_byte: u64 = if t.kind.starts_with("load|") || t.kind.starts_with("file:") { 262_144 } else { 4096 };
        // a file buffer is not clamped to a screen: a picture may have as many rows as SAUCE / the binary formats can declare
        // (16 bits), each allocated at the buffer width; "no gigabytes" is the statement's own bound there
        let file_rows: u64 = if t.kind.starts_with("textfile:") || t.kind.starts_with("load|buf|") { 448 << 20 } else { 0 };
        let abound = ALLOC_BOUND + file_rows + per_byte * r.n as u64 + macro_allowance(t, r.n) / (2 * t.w as u64 * t.h as u64 + 8) * (16 * t.w as u64 + 64);
        if r.peak > abound {
            out.push(Finding {
                key: format!("alloc|{fam}"),
                detail: json!({"what": "peak live allocation exceeds the bound", "bound_bytes": abound, "peak_bytes": r.peak, "magnitude": mag, "input_len": r.n}),
            });
        }
        if r.cpu_ms > 2000 {
            out.push(Finding {
                key: format!("cpu|{fam}"),
                detail: json!({"what": "more than 2 CPU-seconds for one input (loop without work ticks?)", "cpu_ms": r.cpu_ms, "ticks": r.ticks, "magnitude": mag}),
            });
        }
        if r.depth > DEPTH_BOUND {
            out.push(Finding {
                key: format!("nesting|{fam}"),
                detail: json!({"what": "nesting depth exceeds bound", "depth": r.depth}),
            });
        }
    }
    // saturation: growing the magnitude beyond the screen size must not grow the work
    for w in runs.windows(2) {
        let (m0, r0) = &w[0];
        let (m1, r1) = &w[1];
        // only magnitudes above every fixed limit of the engine (screen cells, 2048 sixel pixels, 32767 macro bytes) are compared
        if *m0 < 65536 {
            continue;
        }
        if r0.budget_hit.is_some() || r1.budget_hit.is_some() || r0.panicked || r1.panicked {
            continue;
        }
        if r1.ticks > 2 * r0.ticks + 64 {
            out.push(Finding {
                key: format!("work-grows|{fam}"),
                detail: json!({"what": "work grows with the magnitude of a number in the input", "magnitudes": [m0, m1], "ticks": [r0.ticks, r1.ticks]}),
            });
            break;
        }
        if r1.peak > 2 * r0.peak + (1 << 16) {
            out.push(Finding {
                key: format!("alloc-grows|{fam}"),
                detail: json!({"what": "allocation grows with the magnitude of a number in the input", "magnitudes": [m0, m1], "peak_bytes": [r0.peak, r1.peak]}),
            });
            break;
        }
    }
    out
}

impl C03 {
    fn tmpl_for(&self, ctx: &Ctx, k: u64) -> (Tmpl, &'static str) {
        if k < self.n_csi {
            let idx = if self.n_csi >= self.csi_full {
                k
            } else {
                // quick: vectors of length <= 3 completely, then a seeded sample of the longer ones
                let small = 3 * 3 * 63 * 8 * vec_count(3);
                if k < small {
                    k
                } else {
                    small + crate::rng::mix(ctx.seed, k) % (self.csi_full - small)
                }
            };
            (self.csi_tmpl(idx, 0), "csi-table")
        } else if k < self.n_csi + self.n_modes {
            // the same table with margins / origin mode set (parameter vectors up to mode_len)
            let i = k - self.n_csi;
            let per_mode = self.n_modes / 2;
            (self.csi_tmpl(i % per_mode, 1 + (i / per_mode) as u8), "csi-table-modes")
        } else if k < self.n_csi + self.n_modes + self.n_special {
            (self.specials[((k - self.n_csi - self.n_modes) % self.specials.len() as u64) as usize].clone(), "special")
        } else if k < self.n_csi + self.n_modes + self.n_special + self.n_textfile {
            // the CSI table again, as the content of an .ans *file*: a file buffer has no screen to clamp the cursor to
            // (pictures may be longer than the screen), so positioning functions meet other limits than in a terminal
            let i = k - self.n_csi - self.n_modes - self.n_special;
            let with_content = i % 2 == 1;
            let mut t = self.csi_tmpl((i / 2) * 9, 0);
            t.kind = "textfile:ans".into();
            t.family = format!("file {}{}", t.family, if with_content { " after content" } else { "" });
            t.screen = 0;
            if with_content {
                t.parts.insert(0, Part::L(b"first line\r\nsecond line\r\n\x1b[1;31mred".to_vec()));
            }
            (t, "csi-table-file")
        } else if k < self.n_csi + self.n_modes + self.n_special + self.n_textfile + self.n_filenum {
            // every decimal number written in a seed file (palette colour counts and components, CSI parameters of ANSI
            // files, PCBoard / Renegade codes) becomes a numeric slot
            let (si, a, b) = self.num_runs[(k - self.n_csi - self.n_modes - self.n_special - self.n_textfile) as usize];
            let seed = &self.seeds[si];
            (
                Tmpl {
                    family: format!("file-number {} ({})", seed.ext, seed.api),
                    kind: format!("load|{}|{}", seed.api, seed.ext),
                    emu: String::new(),
                    w: 80,
                    h: 25,
                    screen: 0,
                    parts: vec![Part::L(seed.bytes[..a].to_vec()), Part::B, Part::L(seed.bytes[b..].to_vec())],
                },
                "file-number",
            )
        } else {
            // header-field extremes of every seed file: (seed, offset 0..64, width, value)
            let full = self.file_targets.len() as u64 * 64 * 3 * 6;
            let i = k - self.n_csi - self.n_modes - self.n_special - self.n_textfile - self.n_filenum;
            let mut r = if self.n_files >= full { i } else { crate::rng::mix(ctx.seed ^ 0xF11E, i) % full };
            let val: u32 = [0u32, 1, 0x7FFF, 0xFFFF, 0x7FFF_FFFF, 0xFFFF_FFFF][(r % 6) as usize];
            r /= 6;
            let width = [1usize, 2, 4][(r % 3) as usize];
            r /= 3;
            let off = (r % 64) as usize;
            r /= 64;
            let (si, chunk) = self.file_targets[(r % self.file_targets.len() as u64) as usize];
            let seed = &self.seeds[si];
            let mut bytes = seed.bytes.clone();
            // offsets count from the start of the format's own header; an IcyDraw file is a PNG whose text chunks hold the
            // headers (buffer, layers, fonts), so there the field is planted into the decoded payload of one chunk and the
            // chunk is encoded again
            let plant = |buf: &mut Vec<u8>| {
                for (j, b) in val.to_le_bytes().iter().take(width).enumerate() {
                    if off + j < buf.len() {
                        buf[off + j] = *b;
                    }
                }
            };
            let mut in_chunk = String::new();
            match chunk {
                None => plant(&mut bytes),
                Some(usize::MAX) => {
                    // the SAUCE record at the end of the file: data type, file type, file size and the four TInfo fields
                    // (record offsets 86..106) and the comment count / flags (104..106)
                    if bytes.len() >= 128 {
                        let rec = bytes.len() - 128;
                        let o = rec + 86 + off % 22;
                        for (j, b) in val.to_le_bytes().iter().take(width).enumerate() {
                            if o + j < bytes.len() {
                                bytes[o + j] = *b;
                            }
                        }
                        in_chunk = " SAUCE record".into();
                    }
                }
                Some(ci) => {
                    if let Some(mut chunks) = crate::files::png_split(&seed.bytes) {
                        if let Some((kw, mut payload)) = crate::files::ztxt_decode(&chunks[ci]) {
                            plant(&mut payload);
                            chunks[ci] = crate::files::ztxt_encode(&kw, &payload);
                            bytes = crate::files::png_join(&chunks);
                            in_chunk = format!(" chunk {}", kw.split('_').next().unwrap_or(""));
                        }
                    }
                }
            }
            (
                Tmpl {
                    family: format!("file-header {}{in_chunk} ({})", seed.ext, seed.api),
                    kind: format!("load|{}|{}", seed.api, seed.ext),
                    emu: String::new(),
                    w: 80,
                    h: 25,
                    screen: 0,
                    parts: vec![Part::L(bytes)],
                },
                "file-header",
            )
        }
    }

    fn exec(&mut self, ctx: &mut Ctx, t: &Tmpl, class: &str) {
        let has_slot = t.parts.iter().any(|p| matches!(p, Part::B | Part::Be));
        let mut runs: Vec<(i64, Run)> = Vec::new();
        let mags: Vec<i64> = if has_slot {
            let mut m = MAGS.to_vec();
            // above every clamp a correct engine can apply (width, height, width*height)
            m[0] = (t.w * t.h + 1) as i64;
            m
        } else {
            vec![0]
        };
        for mag in mags {
            let mut r = run_once(t, mag);
            // the CPU clock is the only monitor here that depends on the machine: a reading over the limit counts only if two
            // immediate repetitions of the same run are over the limit too (the smallest reading is kept)
            if r.cpu_ms > 2000 {
                ctx.count("cpu_clock_readings_over_limit_repeated", 1);
                for _ in 0..2 {
                    let again = run_once(t, mag);
                    if again.cpu_ms < r.cpu_ms {
                        r.cpu_ms = again.cpu_ms;
                    }
                }
            }
            ctx.count("runs", 1);
            ctx.count("ticks_observed", r.ticks);
            ctx.max("max_ticks_one_run", r.ticks);
            ctx.max("max_peak_alloc_bytes_one_run", r.peak);
            ctx.max("max_nesting_depth", r.depth as u64);
            ctx.max("max_cpu_ms_one_run", r.cpu_ms);
            if r.n < 64 {
                ctx.count("runs_with_input_shorter_than_64_bytes", 1);
            }
            if r.panicked {
                ctx.count("runs_ended_by_engine_panic_(C01/C02)", 1);
            }
            runs.push((mag, r));
        }
        ctx.count(&format!("cases_{class}"), 1);
        // fingerprint: (family, screen, tick profile bucketed)
        let prof: Vec<u64> = runs.iter().map(|(_, r)| 64 - r.ticks.leading_zeros() as u64).collect();
        ctx.fp_str(&format!("{}|{}|{}x{}|{:?}", t.family, t.screen, t.w, t.h, prof));
        if ctx.want_sample() && runs.iter().any(|(_, r)| r.ticks > 100) {
            ctx.sample(json!({"family": t.family, "kind": t.kind, "size": [t.w, t.h], "screen": t.screen,
                "input_at_2^31-1": printable(&render(t, 2_147_483_647)).chars().take(300).collect::<String>(),
                "ticks_by_magnitude": runs.iter().map(|(m, r)| json!([m, r.ticks])).collect::<Vec<_>>(),
                "peak_alloc_by_magnitude": runs.iter().map(|(m, r)| json!([m, r.peak])).collect::<Vec<_>>()}));
        }
        for f in analyse(t, &runs) {
            let mut detail = f.detail;
            detail["family"] = json!(t.family);
            detail["input"] = json!(printable(&render(t, 2_147_483_647)).chars().take(400).collect::<String>());
            detail["size"] = json!([t.w, t.h]);
            detail["screen"] = json!(t.screen);
            ctx.violation(&f.key, detail, serde_json::to_value(t).unwrap());
        }
    }
}

impl Prop for C03 {
    fn id(&self) -> &'static str {
        "C03"
    }
    fn rule(&self) -> &'static str {
        "a case is a template with numeric slots, executed with every slot at max(W,H)+1, 2^16, 10^6 and 2^31-1 on the real engine with the work counter (hook H1), the counting allocator and the nesting guard (H2) armed. Oracles: ticks <= 16(n+1)WH*max(W,H) for streams (64*65536*(n+1) for fonts/files, 4096(n+1) for sixel), peak live allocation <= 64MiB+4096n (512MiB for picture files: a file buffer may hold 65535 rows), nesting <= 16, cpu <= 2s, and saturation: ticks/peak at a larger magnitude <= 2x those at the smaller one. Templates: the complete CSI table (63 finals x 8 intermediates x parameter vectors of length 0..=6 over {0,1,size,BIG}) x 3 sizes x 3 prepared screens (quick: lengths <=3 complete + sample), the same table with top/bottom margins set and with top/bottom + left/right margins + origin mode set (parameter vectors of length <=2 quick / <=4 thorough), the same table (parameter vectors of length <=2 quick / <=3 thorough) as the content of an .ans file loaded with Buffer::from_bytes (a file buffer does not clamp the cursor to a screen), margins/rectangles/tab/colour functions, twenty counted functions repeated twenty times each, DCS macro definitions (text, hex repeat groups, self/mutual recursion with fan-out 1..=16, doubling chains), sixel raster/repeat headers and colour registers (selection, RGB and HLS definition; through the terminal and directly), Avatar repeat, CTerm:Font / PSF1 / PSF2 header fields, Tundra position records (big-endian row / column), every decimal number written in a text seed file of the loader corpus (palette files: counts and components; ans / pcb / an1 / asc: CSI parameters and colour codes; up to 150 per seed). distinct_nontrivial = distinct (family, screen, size, log2 tick profile over the magnitudes) fingerprints"
    }
    fn meta(&self, _ctx: &Ctx) -> Value {
        json!({"floor_evaluations": 5000, "floor_distinct": 300, "watchdog_s": 60, "watchdog_is_violation": true, "plain_pass": "quick",
               "assumptions": ["one tick = one cell / pixel / glyph / character operation at the hook sites listed in MANIFEST.hooks; loops that contain no tick are caught by the per-run CPU clock (2 s) and the supervisor watchdog",
                               "allocation = bytes requested from the global allocator (counting allocator in the harness binary); a request that would take the process over 1 GiB live is refused, the resulting abort is attributed to the case"]})
    }
    fn total(&mut self, ctx: &Ctx) -> u64 {
        self.build_specials();
        self.csi_full = 3 * 3 * 63 * 8 * vec_count(6);
        let small = 3 * 3 * 63 * 8 * vec_count(3);
        self.n_csi = ctx.tier.pick(small + 60_000, self.csi_full);
        self.n_modes = 2 * 3 * 3 * 63 * 8 * vec_count(ctx.tier.pick(2, 4));
        self.n_special = self.specials.len() as u64;
        self.n_textfile = 2 * 63 * 8 * vec_count(ctx.tier.pick(2, 3));
        self.seeds = crate::files::build_corpus();
        // only where a digit run is a number: the text formats (in a binary file a byte that happens to be an ASCII digit is
        // data, and replacing it by a longer string changes the rest of the file)
        self.num_runs = crate::files::decimal_runs(&self.seeds)
            .into_iter()
            .filter(|(si, _, _)| {
                let s = &self.seeds[*si];
                s.api.starts_with("pal") || (s.api == "buf" && matches!(s.ext.as_str(), "ans" | "pcb" | "an1" | "asc"))
            })
            .collect();
        self.n_filenum = self.num_runs.len() as u64;
        self.file_targets.clear();
        for (si, sd) in self.seeds.iter().enumerate() {
            self.file_targets.push((si, None));
            if sd.api == "buf" && sd.bytes.len() >= 128 && &sd.bytes[sd.bytes.len() - 128..sd.bytes.len() - 123] == b"SAUCE" {
                self.file_targets.push((si, Some(usize::MAX)));
            }
            if sd.api == "buf" && sd.ext == "icy" {
                if let Some(chunks) = crate::files::png_split(&sd.bytes) {
                    for (ci, c) in chunks.iter().enumerate() {
                        if crate::files::ztxt_decode(c).is_some() {
                            self.file_targets.push((si, Some(ci)));
                        }
                    }
                }
            }
        }
        let full = self.file_targets.len() as u64 * 64 * 3 * 6;
        self.n_files = ctx.tier.pick(30_000.min(full), full);
        self.n_csi + self.n_modes + self.n_special + self.n_textfile + self.n_filenum + self.n_files
    }
    fn run_case(&mut self, ctx: &mut Ctx, k: u64) {
        let (t, class) = self.tmpl_for(ctx, k);
        ctx.begin_with(k, &json!({"family": t.family}));
        self.exec(ctx, &t, class);
    }
    fn replay(&mut self, ctx: &mut Ctx, case: &Value) {
        let t: Tmpl = serde_json::from_value(case.clone()).expect("template");
        ctx.begin_with(0, &json!({"family": t.family}));
        self.exec(ctx, &t, "replay");
    }
}
