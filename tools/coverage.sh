#!/bin/bash
# tools/coverage.sh [tier] [props...]  - diagnostic, not a registered check.
# Builds vcheck with -Cinstrument-coverage (nightly, separate target dir under /verif/work), runs the given
# checks (default: all 20, quick) with evidence redirected, merges the per-process profiles and prints, per
# engine source file, line coverage and the uncovered functions. Used to find code behind a property that no
# workload reaches. Output: /verif/work/cov/report.txt, /verif/work/cov/uncovered_functions.txt
set -u
V=/verif
tier=${1:-quick}; shift || true
props=${@:-C01 C02 C03 C04 C05 C06 C07 C08 C09 C10 C11 C12 C13 C14 C15 C16 C17 C18 C19 C20}
BIN=$HOME/.rustup/toolchains/nightly-x86_64-unknown-linux-gnu/lib/rustlib/x86_64-unknown-linux-gnu/bin
export CARGO_NET_OFFLINE=true
mkdir -p $V/work/cov/prof
rm -f $V/work/cov/prof/*.profraw
( cd $V/harness && LLVM_PROFILE_FILE=$V/work/cov/prof/build-%p-%m.profraw CARGO_TARGET_DIR=$V/work/cov-target RUSTFLAGS="--cfg icy_engine_verif -Cinstrument-coverage" cargo +nightly build --release --offline --bin vcheck 2>&1 | tail -2 )
rm -f $V/work/cov/prof/build-*.profraw
export VERIF_BIN_OVERRIDE=$V/work/cov-target/release/vcheck
export LLVM_PROFILE_FILE=$V/work/cov/prof/%p-%m.profraw
export VERIF_OUT=$V/work/cov/out
for p in $props; do
  $V/check $p --tier $tier 2>/dev/null | tail -1
done
$BIN/llvm-profdata merge -sparse $V/work/cov/prof/*.profraw -o $V/work/cov/all.profdata
$BIN/llvm-cov report $VERIF_BIN_OVERRIDE -instr-profile=$V/work/cov/all.profdata --ignore-filename-regex='(registry|rustc|/verif/)' > $V/work/cov/report.txt
$BIN/llvm-cov export $VERIF_BIN_OVERRIDE -instr-profile=$V/work/cov/all.profdata --ignore-filename-regex='(registry|rustc|/verif/)' -format=lcov > $V/work/cov/all.lcov
python3 - <<'PY'
import re,collections
fn_hits=collections.defaultdict(dict); cur=None
for l in open('/verif/work/cov/all.lcov'):
    l=l.strip()
    if l.startswith('SF:'): cur=l[3:]
    elif l.startswith('FNDA:'):
        n,name=l[5:].split(',',1); fn_hits[cur][name]=fn_hits[cur].get(name,0)+int(n)
out=open('/verif/work/cov/uncovered_functions.txt','w')
import subprocess
for f in sorted(fn_hits):
    unc=[n for n,h in fn_hits[f].items() if h==0]
    if unc:
        out.write(f"{f}\n")
        for n in sorted(set(unc)): out.write("   "+n+"\n")
out.close()
PY
rm -f $V/work/cov/prof/*.profraw
tail -n +1 $V/work/cov/report.txt | awk '{print $1, $(NF-3), $(NF-2), $(NF-1), $NF}' | column -t | head -120
