//! Running a byte stream through a real emulation under the monitors
//! (shared by C01, C03, C09, C10, C20).
use std::sync::atomic::{AtomicI64, AtomicU64, Ordering};
use std::sync::Arc;

use icy_engine::ansi::MusicOption;
use icy_engine::{Buffer, BufferParser, CallbackAction, Caret, TextPane};
use serde::{Deserialize, Serialize};

use crate::mon::{guarded, take_other_thread_panics, Budgets, Measure, Outcome, PanicRec};

pub const EMUS: [&str; 10] = ["ansi", "avatar", "pcboard", "ctrla", "renegade", "petscii", "atascii", "viewdata", "mode7", "ascii"];

pub fn make_parser(emu: &str, music: u8) -> Box<dyn BufferParser> {
    match emu {
        "ansi" => {
            let mut p = icy_engine::ansi::Parser::default();
            p.ansi_music = match music {
                1 => MusicOption::Conflicting,
                2 => MusicOption::Banana,
                3 => MusicOption::Both,
                _ => MusicOption::Off,
            };
            Box::new(p)
        }
        "ansi-bs" => {
            let mut p = icy_engine::ansi::Parser::default();
            p.bs_is_ctrl_char = true;
            Box::new(p)
        }
        "rip" => {
            let dir = std::path::PathBuf::from(std::env::var("VERIF_SCRATCH").unwrap_or_else(|_| "/verif/work/scratch".to_string())).join("rip-files");
            let _ = std::fs::create_dir_all(&dir);
            write_icon_files(&dir);
            Box::new(icy_engine::rip::Parser::new(Box::default(), dir))
        }
        "igs" => {
            let exe: Box<dyn icy_engine::igs::CommandExecutor> = Box::<icy_engine::igs::DrawExecutor>::default();
            Box::new(icy_engine::igs::Parser::new(Arc::new(std::sync::Mutex::new(exe))))
        }
        "avatar" => Box::<icy_engine::avatar::Parser>::default(),
        "pcboard" => Box::<icy_engine::pcboard::Parser>::default(),
        "ctrla" => Box::<icy_engine::ctrla::Parser>::default(),
        "renegade" => Box::<icy_engine::renegade::Parser>::default(),
        "petscii" => Box::<icy_engine::petscii::Parser>::default(),
        "atascii" => Box::<icy_engine::atascii::Parser>::default(),
        "viewdata" => Box::<icy_engine::viewdata::Parser>::default(),
        "mode7" => Box::<icy_engine::mode7::Parser>::default(),
        _ => Box::<icy_engine::ascii::Parser>::default(),
    }
}

pub fn is_fixed_grid(emu: &str) -> bool {
    emu == "viewdata" || emu == "mode7"
}

#[derive(Clone, Debug, Serialize, Deserialize)]
pub struct StreamCase {
    pub emu: String,
    #[serde(default)]
    pub music: u8,
    pub w: i32,
    pub h: i32,
    /// rows allocated (Buffer::create) or not (lines.clear(), as the loaders and the test helper do)
    pub alloc: bool,
    /// bytes fed first to bring the terminal into some state (same parser, same monitors)
    #[serde(default)]
    pub prefix: Vec<u8>,
    pub bytes: Vec<u8>,
}

impl StreamCase {
    pub fn total_len(&self) -> usize {
        self.prefix.len() + self.bytes.len()
    }
}

pub fn setup(case: &StreamCase) -> (Buffer, Caret) {
    let mut buf = Buffer::create((case.w, case.h));
    buf.is_terminal_buffer = true;
    if !case.alloc {
        buf.layers[0].lines.clear();
    }
    (buf, Caret::default())
}

#[derive(Clone, Debug, Default)]
pub struct GeoViolation {
    pub at: usize,
    pub what: String,
    pub detail: String,
}

#[derive(Debug, Default)]
pub struct StreamObs {
    pub fed: usize,
    pub errs: u64,
    pub updates: u64,
    pub sends: u64,
    pub beeps: u64,
    pub music: u64,
    pub other_actions: u64,
    pub resized_at: Option<usize>,
    pub panic: Option<(usize, PanicRec)>,
    pub geo: Option<GeoViolation>,
    pub thread_panics: Vec<PanicRec>,
    pub sixel_threads: u64,
    pub measure: Measure,
    pub scrollback_rows: i32,
    pub final_caret: (i32, i32),
    pub fed_after_err: u64,
    /// distinct (result kind) fingerprint bits
    pub kinds: u32,
    pub threads_timed_out: bool,
    /// (width, height, data length) of the last get_picture_data() answer, and how many were checked
    pub picture: Option<(i32, i32, usize)>,
    pub pictures_checked: u64,
    pub bad_picture: Option<(usize, i32, i32, usize)>,
    pub next_actions: u64,
}

#[derive(Clone, Copy, Debug)]
pub struct RunOpts {
    /// poll get_next_action / get_picture_data after every command terminator (RIP / IGS)
    pub graphics: bool,
    pub check_geometry: bool,
    pub budgets: Budgets,
    pub thread_budget: u64,
}

static ACTIVE_DECODES: AtomicI64 = AtomicI64::new(0);
static STARTED_DECODES: AtomicU64 = AtomicU64::new(0);
static THREAD_BUDGET: AtomicU64 = AtomicU64::new(0);

struct DecodeGuard;
impl Drop for DecodeGuard {
    fn drop(&mut self) {
        ACTIVE_DECODES.fetch_sub(1, Ordering::SeqCst);
    }
}
thread_local! {
    static DECODE_GUARD: std::cell::RefCell<Option<DecodeGuard>> = const { std::cell::RefCell::new(None) };
}

/// gate that accounts for decode threads and arms their work budget
pub fn install_accounting_gate() {
    icy_engine::verif::set_sixel_gate(Some(Arc::new(|_pos, _data| {
        if std::thread::current().name() == Some("main") {
            // direct call of Sixel::parse_from by a check, not a decode thread
            return;
        }
        ACTIVE_DECODES.fetch_add(1, Ordering::SeqCst);
        STARTED_DECODES.fetch_add(1, Ordering::SeqCst);
        DECODE_GUARD.with(|g| *g.borrow_mut() = Some(DecodeGuard));
        icy_engine::verif::set_work_budget(THREAD_BUDGET.load(Ordering::Relaxed));
    })));
}

pub fn wait_decodes_idle() -> bool {
    let t0 = std::time::Instant::now();
    while ACTIVE_DECODES.load(Ordering::SeqCst) > 0 {
        if t0.elapsed().as_secs() > 60 {
            return false;
        }
        std::thread::sleep(std::time::Duration::from_micros(200));
    }
    true
}

fn check_geometry(emu: &str, buf: &Buffer, caret: &Caret, at: usize) -> Option<GeoViolation> {
    let w = buf.terminal_state.get_width();
    let h = buf.terminal_state.get_height();
    let first = buf.get_first_visible_line();
    let p = caret.get_position();
    if p.x < 0 || p.x > w - 1 {
        return Some(GeoViolation {
            at,
            what: if p.x < 0 { "caret-x-negative".into() } else { "caret-x-beyond-width".into() },
            detail: format!("caret=({}, {}) width={} height={} first_visible={}", p.x, p.y, w, h, first),
        });
    }
    if p.y < first || p.y > first + h - 1 {
        return Some(GeoViolation {
            at,
            what: if p.y < first { "caret-y-above-visible".into() } else { "caret-y-below-visible".into() },
            detail: format!("caret=({}, {}) width={} height={} first_visible={} buffer_height={}", p.x, p.y, w, h, first, buf.get_height()),
        });
    }
    if is_fixed_grid(emu) {
        let bs = buf.get_size();
        let ls = buf.layers[0].get_size();
        if bs.width != 40 || bs.height != 24 {
            return Some(GeoViolation {
                at,
                what: "fixed-grid-buffer-size".into(),
                detail: format!("buffer size {}x{}", bs.width, bs.height),
            });
        }
        if ls.width != 40 || ls.height != 24 {
            return Some(GeoViolation {
                at,
                what: "fixed-grid-layer-size".into(),
                detail: format!("layer size {}x{}", ls.width, ls.height),
            });
        }
        if w != 40 || h != 24 {
            return Some(GeoViolation {
                at,
                what: "fixed-grid-terminal-size".into(),
                detail: format!("terminal size {w}x{h}"),
            });
        }
    }
    None
}

/// Feed prefix + bytes, one character at a time. Returns what the monitors saw
/// and (when the stream ran to its end) the final buffer for further oracles.
pub fn run_stream(case: &StreamCase, opts: RunOpts) -> (StreamObs, Option<(Buffer, Caret)>) {
    let mut obs = StreamObs::default();
    THREAD_BUDGET.store(opts.thread_budget, Ordering::Relaxed);
    let started0 = STARTED_DECODES.load(Ordering::SeqCst);
    let fed = std::cell::Cell::new(0usize);
    let mut parser = make_parser(&case.emu, case.music);
    let (mut buf, mut caret) = setup(case);
    let mut geo: Option<GeoViolation> = None;
    let mut resized: Option<usize> = None;
    let (mut errs, mut updates, mut sends, mut beeps, mut music, mut other, mut after_err) = (0u64, 0u64, 0u64, 0u64, 0u64, 0u64, 0u64);
    let mut kinds = 0u32;
    let total = case.total_len();
    let mut picture = None;
    let mut pictures_checked = 0u64;
    let mut bad_picture = None;
    let mut next_actions = 0u64;
    let mut total_ticks = 0u64;
    let (out, mut m) = guarded(opts.budgets, || {
        let mut had_err = false;
        for (i, b) in case.prefix.iter().chain(case.bytes.iter()).enumerate() {
            fed.set(i);
            let r = parser.print_char(&mut buf, 0, &mut caret, *b as char);
            if had_err {
                after_err += 1;
            }
            match &r {
                Err(_) => {
                    errs += 1;
                    had_err = true;
                    kinds |= 1;
                }
                Ok(CallbackAction::Update) => {
                    updates += 1;
                    kinds |= 2;
                }
                Ok(CallbackAction::NoUpdate) => {
                    kinds |= 4;
                }
                Ok(CallbackAction::SendString(_)) => {
                    sends += 1;
                    kinds |= 8;
                }
                Ok(CallbackAction::Beep) => {
                    beeps += 1;
                    kinds |= 16;
                }
                Ok(CallbackAction::PlayMusic(_)) => {
                    music += 1;
                    kinds |= 32;
                }
                Ok(CallbackAction::ResizeTerminal(_, _)) => {
                    if resized.is_none() {
                        resized = Some(i);
                    }
                    kinds |= 64;
                }
                Ok(_) => {
                    other += 1;
                    kinds |= 128;
                }
            }
            // a resize request can also arrive indirectly (replayed from a macro, where the action is swallowed):
            // the stream has left the quantifier of C09 as soon as the terminal size differs from the initial one
            if resized.is_none() && !is_fixed_grid(&case.emu) && (buf.terminal_state.get_width() != case.w || buf.terminal_state.get_height() != case.h) {
                resized = Some(i);
            }
            if opts.check_geometry && geo.is_none() && resized.is_none() {
                geo = check_geometry(&case.emu, &buf, &caret, i);
            }
            if opts.graphics && (*b == b'\n' || *b == b':' || *b == b'|' || i + 1 == total) {
                // the work budget of a graphics stream is per command
                total_ticks += icy_engine::verif::ticks();
                icy_engine::verif::reset_ticks();
                // drain pending loop steps (bounded) and look at the canvas the emulation exposes
                for _ in 0..64 {
                    if parser.get_next_action(&mut buf, &mut caret, 0).is_none() {
                        break;
                    }
                    next_actions += 1;
                    // every polled loop step is one command execution
                    total_ticks += icy_engine::verif::ticks();
                    icy_engine::verif::reset_ticks();
                }
                if let Some((size, data)) = parser.get_picture_data() {
                    pictures_checked += 1;
                    picture = Some((size.width, size.height, data.len()));
                    if bad_picture.is_none() && (size.width < 0 || size.height < 0 || data.len() != (size.width as usize) * (size.height as usize) * 4) {
                        bad_picture = Some((i, size.width, size.height, data.len()));
                    }
                }
            }
        }
        fed.set(case.total_len());
        // decode threads belong to this case: join what is still queued
        while let Some(h) = buf.sixel_threads.pop_front() {
            let _ = h.join();
        }
    });
    // detached decoders (handles dropped by FF / clear screen) must finish before the next case
    obs.threads_timed_out = !wait_decodes_idle();
    obs.thread_panics = take_other_thread_panics();
    obs.sixel_threads = STARTED_DECODES.load(Ordering::SeqCst) - started0;
    obs.fed = fed.get();
    obs.errs = errs;
    obs.updates = updates;
    obs.sends = sends;
    obs.beeps = beeps;
    obs.music = music;
    obs.other_actions = other;
    obs.fed_after_err = after_err;
    obs.resized_at = resized;
    obs.geo = geo;
    obs.kinds = kinds;
    m.ticks += total_ticks;
    obs.measure = m;
    obs.picture = picture;
    obs.pictures_checked = pictures_checked;
    obs.bad_picture = bad_picture;
    obs.next_actions = next_actions;
    match out {
        Outcome::Done(()) => {
            obs.scrollback_rows = buf.get_first_visible_line();
            let p = caret.get_position();
            obs.final_caret = (p.x, p.y);
            (obs, Some((buf, caret)))
        }
        Outcome::Panicked(p) => {
            obs.panic = Some((fed.get(), p));
            // the buffer may be in an arbitrary state; make sure no thread handle survives
            buf.sixel_threads.clear();
            let _ = wait_decodes_idle();
            obs.thread_panics.extend(take_other_thread_panics());
            (obs, None)
        }
    }
}

pub fn printable(bytes: &[u8]) -> String {
    let mut s = String::new();
    for b in bytes.iter().take(400) {
        match *b {
            0x1B => s.push_str("<ESC>"),
            b'\\' => s.push_str("\\\\"),
            0x20..=0x7E => s.push(*b as char),
            _ => s.push_str(&format!("\\x{b:02X}")),
        }
    }
    if bytes.len() > 400 {
        s.push_str(&format!("...(+{} bytes)", bytes.len() - 400));
    }
    s
}


/// Icon files for RIP_LOAD_ICON / icon buttons / file queries (format: u16 width-1, u16 height-1, then per row four bit
/// planes). Written once per directory, atomically (several workers share the directory).
fn write_icon_files(dir: &std::path::Path) {
    let icon = |w: u16, h: u16, rows: usize| -> Vec<u8> {
        let mut v = Vec::new();
        v.extend((w.wrapping_sub(1)).to_le_bytes());
        v.extend((h.wrapping_sub(1)).to_le_bytes());
        let row = (w as usize / 8 + usize::from(w & 7 != 0)) * 4;
        for y in 0..rows {
            v.extend((0..row).map(|i| (i * 37 + y * 11) as u8));
        }
        v
    };
    let mut huge = vec![0xFFu8; 4];
    huge.extend([0x55u8; 64]);
    let files: [(&str, Vec<u8>); 6] = [
        ("GOOD.ICN", icon(20, 10, 10)),
        ("SHORT.ICN", icon(20, 10, 0).into_iter().chain([1u8, 2, 3, 4, 5]).collect()),
        ("HUGE.ICN", huge),
        ("EMPTY.ICN", Vec::new()),
        ("ONE.ICN", icon(1, 1, 1)),
        ("WIDE.ICN", icon(2000, 3, 3)),
    ];
    for (name, data) in files {
        let path = dir.join(name);
        if std::fs::metadata(&path).map(|m| m.len() == data.len() as u64).unwrap_or(false) {
            continue;
        }
        let tmp = dir.join(format!(".{name}.{}", std::process::id()));
        if std::fs::write(&tmp, &data).is_ok() {
            let _ = std::fs::rename(&tmp, &path);
        }
    }
}
