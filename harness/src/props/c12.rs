//! C12 — default (colour-optimised) saving never changes the rendered picture.
use icy_engine::{ColorOptimizer, SaveOptions, TextPane};
use serde::{Deserialize, Serialize};
use serde_json::{json, Value};

use crate::ctx::Ctx;
use crate::doc::{self, CellD, DocD, FontD, LayerD};
use crate::mon::{guarded, Budgets, Outcome};
use crate::rng::Rng;
use crate::shrink::shrink_list;
use crate::Prop;

#[derive(Clone, Debug, Serialize, Deserialize)]
pub struct Case12 {
    pub doc: DocD,
    pub normalize_whitespaces: bool,
}

fn run(case: &Case12) -> Option<(String, Value)> {
    let src = doc::build(&case.doc);
    let mut o = SaveOptions::new();
    o.normalize_whitespaces = case.normalize_whitespaces;
    let opt = ColorOptimizer::new(&src, &o).optimize(&src);
    if opt.get_size() != src.get_size() {
        return Some(("optimizer|size".into(), json!({"source": [src.get_width(), src.get_height()], "optimised": [opt.get_width(), opt.get_height()]})));
    }
    let (sa, pa) = src.render_to_rgba(src.get_rectangle());
    let (sb, pb) = opt.render_to_rgba(opt.get_rectangle());
    if sa != sb || pa.len() != pb.len() {
        return Some(("optimizer|image-size".into(), json!({"source": [sa.width, sa.height], "optimised": [sb.width, sb.height]})));
    }
    if let Some(i) = pa.iter().zip(pb.iter()).position(|(a, b)| a != b) {
        let px = i / 4;
        let (pxw, fh, fw) = (sa.width.max(1) as usize, src.get_font_dimensions().height.max(1) as usize, src.get_font_dimensions().width.max(1) as usize);
        let (x, y) = ((px % pxw) / fw, (px / pxw) / fh);
        let c = src.get_char((x as i32, y as i32));
        let oc = opt.get_char((x as i32, y as i32));
        let what = if c.ch != oc.ch { "char-replaced" } else if c.attribute.get_foreground() != oc.attribute.get_foreground() { "foreground-rewritten" } else if c.attribute.get_background() != oc.attribute.get_background() { "background-rewritten" } else { "other" };
        return Some((
            format!("optimizer|pixel|{what}|{}", crate::picture::glyph_class(&src, &c)),
            json!({"cell": [x, y], "pixel": [px % pxw, px / pxw], "source_cell": doc::describe_cell(&c), "optimised_cell": doc::describe_cell(&oc),
                   "source_rgba": &pa[px * 4..px * 4 + 4], "optimised_rgba": &pb[px * 4..px * 4 + 4], "normalize_whitespaces": case.normalize_whitespaces}),
        ));
    }
    None
}

fn gen(rng: &mut Rng, k: u64) -> DocD {
    let w = 1 + rng.usize(24) as i32;
    let h = 1 + rng.usize(8) as i32;
    let mut d = DocD::single(w, h);
    d.layers.clear();
    // sometimes the document is taller than its base layer (canvas enlarged, lower rows come from offset layers alone)
    let bh = if rng.chance(1, 5) { h + 1 + rng.usize(4) as i32 } else { h };
    d.h = bh;
    d.font_mode = 0;
    d.palette_mode = 0;
    // every built-in page 0..=42 and every SAUCE font appears in some document: the case index selects one
    let n_sauce = icy_engine::SAUCE_FONT_NAMES.len() as u64;
    let sel = k % (43 + n_sauce);
    let mut pages: Vec<u16> = vec![0];
    let first = if sel < 43 {
        FontD { slot: 0, name: format!("page {sel}"), height: 16, builtin: Some(sel as usize), data: vec![], sauce_name: None }
    } else {
        FontD { slot: 0, name: "sauce".into(), height: 16, builtin: None, data: vec![], sauce_name: Some(icy_engine::SAUCE_FONT_NAMES[(sel - 43) as usize].to_string()) }
    };
    d.fonts.push(first);
    for _ in 0..rng.usize(3) {
        let slot = 1 + rng.usize(6);
        if pages.contains(&(slot as u16)) {
            continue;
        }
        pages.push(slot as u16);
        d.fonts.push(FontD { slot, name: format!("extra {slot}"), height: 16, builtin: Some(rng.usize(43)), data: vec![], sauce_name: None });
    }
    let mut pal: Vec<(u8, u8, u8)> = (0..16).map(|i| icy_engine::DOS_DEFAULT_PALETTE[i].get_rgb()).collect();
    for _ in 0..rng.usize(5) {
        pal.push((rng.byte(), rng.byte(), rng.byte()));
    }
    let ncol = pal.len() as u32;
    d.palette = Some(pal);
    let nl = 1 + rng.usize(4);
    for li in 0..nl {
        let (lw, lh) = if li == 0 { (w, h) } else { (1 + rng.usize(w as usize) as i32, 1 + rng.usize(h as usize) as i32) };
        let mut l = LayerD::plain(lw, lh);
        if li > 0 {
            l.alpha = rng.chance(2, 3);
            l.ox = rng.range(-3, w as i64) as i32;
            l.oy = rng.range(-2, bh as i64) as i32;
            l.visible = rng.chance(3, 4);
        } else {
            // the base layer too can be hidden, transparent or shifted (also as the only layer of the document)
            l.visible = rng.chance(9, 10);
            l.alpha = rng.chance(1, 6);
            if rng.chance(1, 10) {
                l.ox = rng.range(-2, 3) as i32;
                l.oy = rng.range(-1, 2) as i32;
            }
        }
        // sometimes the base layer stores only its top rows: the lower part of the picture then comes from offset layers alone
        let stored_rows = if li == 0 && rng.chance(1, 4) { rng.usize(lh as usize) as i32 } else { lh };
        for y in 0..stored_rows {
            for x in 0..lw {
                if !rng.chance(if li == 0 { 90 } else { 50 }, 100) {
                    continue;
                }
                // blank glyphs (0, 32, 255) and the solid block are over-represented
                let ch = match rng.usize(6) {
                    0 => *rng.pick(&[0u32, 32, 255]),
                    1 => 0xDB,
                    _ => rng.below(256) as u32,
                };
                let attr = if rng.chance(1, 4) { icy_engine::attribute::BOLD } else { 0 };
                l.cells.push(CellD { x, y, ch, fg: rng.below(ncol as u64) as u32, bg: rng.below(ncol as u64) as u32, attr, fp: *rng.pick(&pages) });
            }
        }
        d.layers.push(l);
    }
    d
}

#[derive(Default)]
pub struct C12 {}

impl C12 {
    fn exec(&mut self, ctx: &mut Ctx, case: &Case12) {
        let c = case.clone();
        let (out, _m) = guarded(Budgets { work: 2_000_000_000, ..Budgets::default() }, move || run(&c));
        let d = &case.doc;
        ctx.count("documents", 1);
        ctx.count("cells", d.layers.iter().map(|l| l.cells.len() as u64).sum());
        ctx.fp(crate::rng::mix(
            crate::rng::hash_str(&format!("{:?}{:?}", d.fonts.iter().map(|f| (f.slot, f.builtin, f.sauce_name.clone())).collect::<Vec<_>>(), case.normalize_whitespaces)),
            crate::rng::hash_str(&format!("{:?}", d.layers.iter().map(|l| (l.w, l.h, l.ox, l.oy, l.alpha, l.visible, l.cells.len())).collect::<Vec<_>>())),
        ));
        // glyph coverage: which (font, glyph) pairs were rendered
        for l in &d.layers {
            for c in l.cells.iter().take(4) {
                let f = d.fonts.iter().find(|f| f.slot == c.fp as usize).map(|f| f.builtin.unwrap_or(100)).unwrap_or(0);
                ctx.fp(crate::rng::mix(0xC12, (f as u64) << 16 | c.ch as u64));
            }
        }
        match out {
            Outcome::Done(res) => {
                if ctx.want_sample() && ctx.evaluations % 211 == 5 {
                    ctx.sample(json!({"size": [d.w, d.h], "layers": d.layers.len(), "fonts": d.fonts.iter().map(|f| json!({"slot": f.slot, "builtin": f.builtin, "sauce": f.sauce_name})).collect::<Vec<_>>(), "normalize_whitespaces": case.normalize_whitespaces}));
                }
                if let Some((key, detail)) = res {
                    let mut used = case.clone();
                    if !ctx.replay && ctx.seen(&key) == 0 {
                        let layers = shrink_list(&used.doc.layers.clone(), 20, |cand| {
                            if cand.is_empty() {
                                return false;
                            }
                            let mut c2 = used.clone();
                            c2.doc.layers = cand.to_vec();
                            run(&c2).map(|(k, _)| k == key).unwrap_or(false)
                        });
                        used.doc.layers = layers;
                        for li in 0..used.doc.layers.len() {
                            let cells = shrink_list(&used.doc.layers[li].cells.clone(), 100, |cand| {
                                let mut c2 = used.clone();
                                c2.doc.layers[li].cells = cand.to_vec();
                                run(&c2).map(|(k, _)| k == key).unwrap_or(false)
                            });
                            used.doc.layers[li].cells = cells;
                        }
                    }
                    let detail = run(&used).map(|(_, d)| d).unwrap_or(detail);
                    ctx.violation(&format!("mismatch|{key}"), detail, serde_json::to_value(&used).unwrap());
                }
            }
            Outcome::Panicked(p) => match p.kind {
                crate::mon::PanicKind::Engine => ctx.panic_violation("optimizer", &p, serde_json::to_value(case).unwrap()),
                _ => ctx.count("resource_events", 1),
            },
        }
    }
}

impl Prop for C12 {
    fn id(&self) -> &'static str {
        "C12"
    }
    fn rule(&self) -> &'static str {
        "documents of 1..=4 layers (alpha, offset, hidden - the base layer too, also as the only layer; base layer sometimes storing only its top rows or shorter than the document) up to 24x12 cells whose font slot 0 cycles through every built-in font page 0..=42 and every SAUCE font (plus up to 3 extra slots with other pages), cells over all 256 glyphs with blank glyphs 0/32/255 and the solid block over-represented, colours from the 16 DOS colours plus RGB palette entries, bold, both settings of normalize_whitespaces: Buffer::render_to_rgba of the document and of ColorOptimizer::optimize(document) must be byte-identical and of the same size; the first differing pixel is mapped back to its cell. distinct_nontrivial = distinct (font set, whitespace option, layer shapes) documents plus distinct (font page, glyph) pairs rendered"
    }
    fn meta(&self, ctx: &Ctx) -> Value {
        json!({"floor_evaluations": 1000, "floor_distinct": ctx.tier.pick(3000u64, 20000u64),
               "assumptions": ["every font page referenced by a cell has a font in the table and cells use glyphs 0..=255 (as the statement quantifies)"]})
    }
    fn total(&mut self, ctx: &Ctx) -> u64 {
        ctx.tier.pick(40_000, 200_000)
    }
    fn run_case(&mut self, ctx: &mut Ctx, k: u64) {
        let mut rng = ctx.rng(k);
        let case = Case12 { doc: gen(&mut rng, k), normalize_whitespaces: k % 2 == 0 };
        ctx.begin(k);
        self.exec(ctx, &case);
    }
    fn replay(&mut self, ctx: &mut Ctx, case: &Value) {
        let c: Case12 = serde_json::from_value(case.clone()).expect("c12 case");
        ctx.begin(0);
        self.exec(ctx, &c);
    }
}
