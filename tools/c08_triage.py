#!/usr/bin/env python3
# development aid: summarise C08 replay files by (phase, field, last op) and print the shortest witness of each class
import json,glob,collections,sys
cls=collections.defaultdict(list)
for f in glob.glob('/verif/replays/C08-*.json'):
    r=json.load(open(f))
    p=r['key'].split('|')
    cls[(p[1],p[3],p[2].split('>')[-1])].append((len(r['case']['ops']),f,r))
for k,v in sorted(cls.items()):
    v.sort(key=lambda t:t[0])
    n,f,r=v[0]
    print('==',len(v),k,f)
    for l in r['case']['doc']['layers']:
        print('   layer',l['title'],l['w'],l['h'],'off',l['ox'],l['oy'],'vis',l['visible'],'lock',l['locked'],'alpha',l['alpha'],'cells',len(l['cells']))
    print('   ops',r['case']['ops'])
    print('   ',str(r['detail'])[:600])
