//! C11 — SAUCE metadata round-trips and is cut off the content exactly.
use std::path::PathBuf;

use icy_engine::{Buffer, SauceData, TextPane};
use serde::{Deserialize, Serialize};
use serde_json::{json, Value};

use crate::ctx::Ctx;
use crate::doc::{self, Chars, Colors, DocD, SauceD};
use crate::files::save_opts;
use crate::mon::{guarded, Budgets, Outcome};
use crate::rng::Rng;
use crate::Prop;

const WRITERS: [&str; 10] = ["ans", "asc", "avt", "pcb", "bin", "xb", "tnd", "adf", "idf", "icy"];

#[derive(Clone, Debug, Serialize, Deserialize)]
pub struct Case11 {
    pub ext: String,
    pub doc: DocD,
    /// "meta" (round trip + reference reader), "cut" (content vs content+trailer), "foreign" (reference-written trailer)
    pub mode: String,
    /// extra bytes appended to the content before the trailer (look-alike markers)
    #[serde(default)]
    pub content_tail: Vec<u8>,
    /// exact content override (cut mode, for the length classes)
    #[serde(default)]
    pub raw_content: Option<Vec<u8>>,
}

/// what the reference reader (written from the SAUCE 00 specification) sees
#[derive(Debug, Default)]
struct RefSauce {
    title: Vec<u8>,
    author: Vec<u8>,
    group: Vec<u8>,
    data_type: u8,
    file_type: u8,
    tinfo1: u16,
    tinfo2: u16,
    comments: Vec<Vec<u8>>,
    flags: u8,
    tinfos: Vec<u8>,
    /// number of trailing bytes that belong to SAUCE (EOF + comment block + record)
    trailer_len: usize,
    eof_present: bool,
}

fn ref_read(bytes: &[u8]) -> Result<RefSauce, String> {
    if bytes.len() < 128 {
        return Err("shorter than a record".into());
    }
    let r = &bytes[bytes.len() - 128..];
    if &r[0..5] != b"SAUCE" {
        return Err("no SAUCE id".into());
    }
    if &r[5..7] != b"00" {
        return Err("version".into());
    }
    let mut s = RefSauce {
        title: r[7..42].to_vec(),
        author: r[42..62].to_vec(),
        group: r[62..82].to_vec(),
        data_type: r[94],
        file_type: r[95],
        tinfo1: u16::from_le_bytes([r[96], r[97]]),
        tinfo2: u16::from_le_bytes([r[98], r[99]]),
        flags: r[105],
        tinfos: r[106..128].to_vec(),
        ..Default::default()
    };
    let n = r[104] as usize;
    let mut start = bytes.len() - 128;
    if n > 0 {
        let need = 5 + 64 * n;
        if start < need {
            return Err("comment block does not fit".into());
        }
        start -= need;
        if &bytes[start..start + 5] != b"COMNT" {
            return Err("no COMNT id where the comment count says it is".into());
        }
        for i in 0..n {
            s.comments.push(bytes[start + 5 + 64 * i..start + 5 + 64 * (i + 1)].to_vec());
        }
    }
    if start > 0 && bytes[start - 1] == 0x1A {
        s.eof_present = true;
        start -= 1;
    }
    s.trailer_len = bytes.len() - start;
    Ok(s)
}

fn strip(v: &[u8]) -> Vec<u8> {
    let mut v = v.to_vec();
    while matches!(v.last(), Some(0) | Some(b' ')) {
        v.pop();
    }
    v
}

/// reference SAUCE writer (for "foreign" trailers)
fn ref_write(s: &SauceD, data_type: u8, file_type: u8, w: u16, h: u16, flags: u8, font: &[u8], pad: u8, eof: bool) -> Vec<u8> {
    let mut v = if eof { vec![0x1A] } else { vec![] };
    if !s.comments.is_empty() {
        v.extend_from_slice(b"COMNT");
        for c in &s.comments {
            let mut l = c.clone();
            l.truncate(64);
            l.resize(64, pad);
            v.extend(l);
        }
    }
    v.extend_from_slice(b"SAUCE00");
    for (f, n) in [(&s.title, 35usize), (&s.author, 20), (&s.group, 20)] {
        let mut l = f.clone();
        l.truncate(n);
        l.resize(n, b' ');
        v.extend(l);
    }
    v.extend_from_slice(b"19970401");
    v.extend(0u32.to_le_bytes());
    v.push(data_type);
    v.push(file_type);
    v.extend(w.to_le_bytes());
    v.extend(h.to_le_bytes());
    v.extend([0, 0, 0, 0]);
    v.push(s.comments.len().min(255) as u8);
    v.push(flags);
    let mut f = font.to_vec();
    f.truncate(22);
    f.resize(22, 0);
    v.extend(f);
    v
}

fn picture(buf: &Buffer) -> Vec<(u32, (u8, u8, u8), (u8, u8, u8), bool)> {
    let mut v = Vec::new();
    for y in 0..buf.get_height() {
        for x in 0..buf.get_width() {
            let c = buf.get_char((x, y));
            let fg = if c.attribute.is_bold() && c.attribute.get_foreground() < 8 { c.attribute.get_foreground() + 8 } else { c.attribute.get_foreground() };
            v.push((c.ch as u32, buf.palette.get_rgb(fg), buf.palette.get_rgb(c.attribute.get_background()), c.attribute.is_blinking()));
        }
    }
    v
}

fn load(ext: &str, bytes: &[u8]) -> Result<Buffer, String> {
    Buffer::from_bytes(&PathBuf::from(format!("f.{ext}")), false, bytes).map_err(|e| e.to_string())
}

fn sauce_eq(a: &[u8], b_loaded: &[u8]) -> bool {
    strip(a) == strip(b_loaded)
}

fn cp437_of<const L: usize, const E: u8>(s: &icy_engine::SauceString<L, E>) -> Vec<u8> {
    // Display converts cp437 -> unicode; go back through the table
    s.to_string().chars().map(|c| icy_engine::ascii::CP437_TO_UNICODE.iter().position(|u| *u == c).unwrap_or(b'?' as usize) as u8).collect()
}

fn run(case: &Case11) -> Option<(String, Value)> {
    let ext = case.ext.as_str();
    let buf = doc::build(&case.doc);
    let sd = case.doc.sauce.clone().unwrap_or_default();
    match case.mode.as_str() {
        "meta" => {
            let bytes = match buf.to_bytes(ext, &save_opts(true, true)) {
                Ok(b) => b,
                Err(e) => return Some((format!("sauce|{ext}|save-error"), json!({"error": e.to_string()}))),
            };
            // writer side: an independent reader must find the intended values
            if ext != "icy" {
                match ref_read(&bytes) {
                    Err(e) => return Some((format!("sauce|{ext}|writer|invalid-trailer"), json!({"reference_reader": e, "comments": sd.comments.len()}))),
                    Ok(r) => {
                        for (name, want, got) in [("title", &sd.title, &r.title), ("author", &sd.author, &r.author), ("group", &sd.group, &r.group)] {
                            if !sauce_eq(want, got) {
                                return Some((format!("sauce|{ext}|writer|{name}"), json!({"intended": want, "in_file": got})));
                            }
                        }
                        if r.comments.len() != sd.comments.len() {
                            return Some((format!("sauce|{ext}|writer|comment-count"), json!({"intended": sd.comments.len(), "in_file": r.comments.len()})));
                        }
                        for (i, (w, g)) in sd.comments.iter().zip(r.comments.iter()).enumerate() {
                            if !sauce_eq(w, g) {
                                return Some((format!("sauce|{ext}|writer|comment-text"), json!({"line": i, "intended": w, "in_file": g})));
                            }
                        }
                        if !r.eof_present {
                            return Some((format!("sauce|{ext}|writer|no-eof-byte"), json!({})));
                        }
                    }
                }
            }
            // reader side: what the variant can carry must come back
            let back = match load(ext, &bytes) {
                Ok(b) => b,
                Err(e) => return Some((format!("sauce|{ext}|load-error"), json!({"error": e}))),
            };
            let Some(ls) = back.get_sauce() else {
                return Some((format!("sauce|{ext}|reader|no-sauce-after-load"), json!({})));
            };
            for (name, want, got) in [("title", &sd.title, cp437_of(&ls.title)), ("author", &sd.author, cp437_of(&ls.author)), ("group", &sd.group, cp437_of(&ls.group))] {
                if !sauce_eq(want, &got) {
                    return Some((format!("sauce|{ext}|reader|{name}"), json!({"saved": want, "loaded": got})));
                }
            }
            if ls.comments.len() != sd.comments.len() {
                return Some((format!("sauce|{ext}|reader|comment-count"), json!({"saved": sd.comments.len(), "loaded": ls.comments.len()})));
            }
            for (i, (w, g)) in sd.comments.iter().zip(ls.comments.iter()).enumerate() {
                if !sauce_eq(w, &cp437_of(g)) {
                    return Some((format!("sauce|{ext}|reader|comment-text"), json!({"line": i, "saved": w, "loaded": cp437_of(g)})));
                }
            }
            // width (every variant carries it; BIN in units of 2), ice flag (ANSi, ASCII, BIN variants), flags (ANSi only)
            let want_w = case.doc.w;
            if ls.buffer_size.width != want_w {
                return Some((format!("sauce|{ext}|reader|width"), json!({"saved": want_w, "loaded": ls.buffer_size.width})));
            }
            let carries_ice = matches!(ext, "ans" | "asc" | "bin" | "adf" | "idf" | "icy");
            let want_ice = case.doc.ice == 2;
            if carries_ice && ls.use_ice != want_ice {
                return Some((format!("sauce|{ext}|reader|ice-flag"), json!({"saved": want_ice, "loaded": ls.use_ice})));
            }
            let carries_flags = matches!(ext, "ans" | "adf" | "icy");
            if carries_flags && (ls.use_letter_spacing != sd.letter_spacing || ls.use_aspect_ratio != sd.aspect_ratio) {
                return Some((
                    format!("sauce|{ext}|reader|spacing-aspect-flags"),
                    json!({"saved": [sd.letter_spacing, sd.aspect_ratio], "loaded": [ls.use_letter_spacing, ls.use_aspect_ratio]}),
                ));
            }
            let carries_font = matches!(ext, "ans" | "asc" | "bin" | "adf" | "idf" | "icy");
            if carries_font {
                let font_name = buf.get_font(0).map(|f| f.name.clone()).unwrap_or_default();
                let want: String = font_name.chars().take(22).collect();
                // the field is blank/NUL padded: trailing blanks are not significant
                if ls.font_opt.as_deref().unwrap_or("").trim_end_matches([' ', '\0']) != want.trim_end_matches([' ', '\0']) {
                    return Some((format!("sauce|{ext}|reader|font-name"), json!({"saved": want, "loaded": ls.font_opt})));
                }
            }
            None
        }
        "cut" | "foreign" => {
            let mut content = match &case.raw_content {
                Some(c) => c.clone(),
                None => match buf.to_bytes(ext, &save_opts(false, true)) {
                    Ok(b) => b,
                    Err(e) => return Some((format!("sauce|{ext}|save-error"), json!({"error": e.to_string()}))),
                },
            };
            content.extend_from_slice(&case.content_tail);
            let with = if case.mode == "cut" && case.raw_content.is_none() && case.content_tail.is_empty() {
                match buf.to_bytes(ext, &save_opts(true, true)) {
                    Ok(b) => b,
                    Err(e) => return Some((format!("sauce|{ext}|save-error"), json!({"error": e.to_string()}))),
                }
            } else {
                // reference-written trailer with the loader's defaults
                let (dt, ft, w, h, font): (u8, u8, u16, u16, &[u8]) = match ext {
                    "bin" => (5, (case.doc.w / 2) as u8, 0, 0, b"IBM VGA"),
                    "xb" => (6, 0, case.doc.w as u16, case.doc.h as u16, b""),
                    "asc" => (1, 0, case.doc.w as u16, case.doc.h as u16, b"IBM VGA"),
                    "avt" => (1, 5, case.doc.w as u16, case.doc.h as u16, b""),
                    "pcb" => (1, 4, case.doc.w as u16, case.doc.h as u16, b""),
                    "tnd" => (1, 8, case.doc.w as u16, 0, b""),
                    _ => (1, 1, case.doc.w as u16, case.doc.h as u16, b"IBM VGA"),
                };
                let flags = if case.doc.ice == 2 && matches!(ext, "ans" | "asc" | "bin" | "adf" | "idf") { 1 } else { 0 };
                let mut v = content.clone();
                // files in the wild sometimes lack the EOF character in front of the record: then no content byte may be cut
                // (an EOF-less trailer right after content that itself ends in 0x1A is ambiguous by construction: not generated)
                let eof = !(case.mode == "foreign" && sd.title.len() % 4 == 1) || content.last() == Some(&0x1A);
                v.extend(ref_write(&sd, dt, ft, w, h, flags, font, if case.mode == "foreign" { 0 } else { b' ' }, eof));
                v
            };
            if ext == "icy" {
                return None;
            }
            // the trailer must be exactly what follows the content
            if case.mode == "cut" && case.raw_content.is_none() && case.content_tail.is_empty() {
                if !with.starts_with(&content) {
                    return Some((format!("sauce|{ext}|writer|content-changes-with-sauce"), json!({"content_len": content.len(), "with_len": with.len()})));
                }
            }
            match SauceData::extract(&with) {
                Ok(Some(s)) => {
                    let expect = with.len() - content.len();
                    if s.sauce_header_len != expect {
                        return Some((
                            format!("sauce|{ext}|sauce_header_len"),
                            json!({"reported": s.sauce_header_len, "expected": expect, "comments": sd.comments.len(), "content_len": content.len()}),
                        ));
                    }
                    if case.mode == "foreign" {
                        for (name, want, got) in [("title", &sd.title, cp437_of(&s.title)), ("author", &sd.author, cp437_of(&s.author)), ("group", &sd.group, cp437_of(&s.group))] {
                            let mut w = want.clone();
                            w.truncate(if name == "title" { 35 } else { 20 });
                            if !sauce_eq(&w, &got) {
                                return Some((format!("sauce|{ext}|foreign-reader|{name}"), json!({"in_file": w, "loaded": got})));
                            }
                        }
                        if s.comments.len() != sd.comments.len().min(255) {
                            return Some((format!("sauce|{ext}|foreign-reader|comment-count"), json!({"in_file": sd.comments.len(), "loaded": s.comments.len()})));
                        }
                    }
                }
                Ok(None) => return Some((format!("sauce|{ext}|record-not-found"), json!({"content_len": content.len()}))),
                Err(e) => return Some((format!("sauce|{ext}|extract-error"), json!({"error": e.to_string(), "content_len": content.len()}))),
            }
            // a text file is also loaded under a name no format claims (the loader then falls back to ANSI)
            let load_ext = if matches!(ext, "ans" | "asc") && content.len() % 3 == 0 { "nfo" } else { ext };
            let a = load(load_ext, &content);
            let b = load(load_ext, &with);
            match (a, b) {
                (Ok(a), Ok(b)) => {
                    if a.get_size() != b.get_size() {
                        return Some((
                            format!("sauce|{ext}|cut|size"),
                            json!({"content_only": [a.get_width(), a.get_height()], "with_sauce": [b.get_width(), b.get_height()], "content_len": content.len(), "doc": [case.doc.w, case.doc.h]}),
                        ));
                    }
                    let (pa, pb) = (picture(&a), picture(&b));
                    if let Some(i) = pa.iter().zip(pb.iter()).position(|(x, y)| x != y) {
                        let w = a.get_width().max(1) as usize;
                        return Some((
                            format!("sauce|{ext}|cut|cell"),
                            json!({"x": i % w, "y": i / w, "content_only": format!("{:?}", pa[i]), "with_sauce": format!("{:?}", pb[i]), "content_len": content.len()}),
                        ));
                    }
                    None
                }
                (Err(_), Err(_)) => None,
                (a, b) => Some((format!("sauce|{ext}|cut|one-side-fails"), json!({"content_only": a.err(), "with_sauce": b.err(), "content_len": content.len()}))),
            }
        }
        _ => None,
    }
}

fn gen_sauce(rng: &mut Rng) -> SauceD {
    let field = |rng: &mut Rng, max: usize| -> Vec<u8> {
        let n = match rng.usize(5) {
            0 => 0,
            1 => max,
            _ => rng.usize(max + 1),
        };
        // alphabets: mixed CP437 (blanks, high half, printable ASCII, now and then a glyph of the control range 0x01..0x1F),
        // ASCII plus control-range glyphs only (every byte is also valid UTF-8), and high bytes that happen to form valid
        // UTF-8 sequences (CP437 text must not be taken for UTF-8)
        let alphabet = rng.usize(8);
        let mut v: Vec<u8> = Vec::with_capacity(n);
        while v.len() < n {
            match alphabet {
                0 => v.push(if rng.chance(1, 3) { 0x01 + rng.usize(0x1F) as u8 } else { 0x21 + rng.usize(0x5E) as u8 }),
                1 => {
                    let seq: &[u8] = *rng.pick(&[&[0xC3u8, 0xA9][..], &[0xE2, 0x99, 0xAA][..], &[0xC2, 0xA0][..], &[0x41][..], &[0xF0, 0x9F, 0x98, 0x80][..]]);
                    if v.len() + seq.len() <= n {
                        v.extend_from_slice(seq);
                    } else {
                        v.push(b'x');
                    }
                }
                _ => v.push(match rng.usize(12) {
                    0 | 1 => b' ',
                    2 | 3 => 0x80 + rng.usize(0x7F) as u8,
                    4 => 0x01 + rng.usize(0x1F) as u8,
                    _ => 0x21 + rng.usize(0x5E) as u8,
                }),
            }
        }
        // a NUL inside a blank-padded field (title / author / group) is a character like any other; comment lines end at
        // their first NUL by definition, so they get none
        if max != 64 && v.len() >= 3 && rng.chance(1, 8) {
            let at = 1 + rng.usize(v.len() - 2);
            v[at] = 0;
            if v[at + 1] == b' ' || v[at + 1] == 0 {
                v[at + 1] = b'P';
            }
        }
        // trailing blanks / NULs are padding by definition: generate them, compare stripped
        if rng.chance(1, 4) && !v.is_empty() {
            let k = rng.usize(v.len().min(4)) + 1;
            let l = v.len();
            let pad = if rng.chance(1, 3) { 0u8 } else { b' ' };
            for b in v[l - k..].iter_mut() {
                *b = pad;
            }
        }
        v
    };
    let nc = match rng.usize(8) {
        0 => 0,
        1 => 1,
        2 => 255,
        3 => 254,
        _ => rng.usize(12),
    };
    SauceD {
        title: field(rng, 35),
        author: field(rng, 20),
        group: field(rng, 20),
        comments: (0..nc).map(|_| field(rng, 64)).collect(),
        ice: false,
        letter_spacing: rng.bool(),
        aspect_ratio: rng.bool(),
        // a third of the documents remember a font name from an earlier load as well (stale: the document's font 0 is what
        // a writer has to name)
        font: if rng.chance(1, 3) { Some(rng.pick(&["IBM VGA50", "Amiga Topaz 2", "IBM VGA", "C64 PETSCII unshifted", "no such font"]).to_string()) } else { None },
        // half of the documents remember a file type from an earlier load (a .pcb opened and saved as .icy, ...)
        file_type: if rng.bool() { 0 } else { rng.below(9) as u8 },
    }
}

/// enumerated part: 10 writers x (256 comment counts + 36 title + 21 author + 21 group lengths)
const N_ENUM: u64 = 10 * (256 + 36 + 21 + 21);

#[derive(Default)]
pub struct C11 {}

impl C11 {
    fn case_for(&self, ctx: &Ctx, k: u64) -> Case11 {
        let mut rng = ctx.rng(k);
        let ext = WRITERS[(k % WRITERS.len() as u64) as usize];
        // the first N_ENUM cases enumerate, for every writer, each comment count 0..=255 and each title / author / group
        // length 0..=35 / 20 / 20 (the other fields stay random)
        let forced: Option<(u8, usize)> = if k < N_ENUM {
            let j = (k / WRITERS.len() as u64) as usize;
            Some(if j < 256 { (0, j) } else if j < 292 { (1, j - 256) } else if j < 313 { (2, j - 292) } else { (3, j - 313) })
        } else {
            None
        };
        let mode = if forced.is_some() {
            "meta"
        } else {
            match (k / WRITERS.len() as u64) % 4 {
                0 | 1 => "meta",
                2 => "cut",
                _ => "foreign",
            }
        };
        // widths: loader default for the cut tests, 1..=1000 (format limits) for the metadata tests
        let default_w = if ext == "bin" { 160 } else { 80 };
        let w = if mode != "meta" {
            default_w
        } else {
            match ext {
                "adf" => 80,
                "idf" => *rng.pick(&[80, 40, 2, 80]),
                "bin" => 2 * rng.range(1, 255) as i32,
                "ata" => 40,
                _ => match rng.usize(5) {
                    0 => 80,
                    1 => rng.range(1, 1000) as i32,
                    2 => *rng.pick(&[1, 79, 81, 132, 160, 999, 1000]),
                    _ => rng.range(1, 200) as i32,
                },
            }
        };
        let h = 1 + rng.usize(6) as i32;
        let mut d = DocD::single(w, h);
        let ice = matches!(ext, "adf" | "idf") || (mode == "meta" && matches!(ext, "ans" | "asc" | "bin" | "icy") && rng.bool());
        d.ice = if ice { 2 } else { 1 };
        // last row non-empty, printable characters only (content survives every text format)
        doc::fill_cells(&mut rng, &mut d.layers[0], Chars::Printable, if ice { Colors::Ice } else { Colors::Dos }, 0, 1, 90);
        d.layers[0].cells.retain(|c| !matches!(c.ch, 0x40 | 0x7C | 0x60));
        d.layers[0].cells.push(doc::CellD { x: 0, y: h - 1, ch: 0x58, fg: 7, bg: 0, attr: 0, fp: 0 });
        if mode != "meta" && matches!(ext, "bin" | "xb" | "adf" | "idf" | "tnd") && rng.chance(1, 3) {
            // the content itself ends in EOF bytes (character 0x1A with attribute 0x1A): exactly one 0x1A belongs to the trailer
            if w >= 2 && rng.bool() {
                d.layers[0].cells.push(doc::CellD { x: w - 2, y: h - 1, ch: 0x1A, fg: 10, bg: 1, attr: 0, fp: 0 });
            }
            d.layers[0].cells.push(doc::CellD { x: w - 1, y: h - 1, ch: 0x1A, fg: 10, bg: 1, attr: 0, fp: 0 });
        } else {
            d.layers[0].cells.push(doc::CellD { x: w - 1, y: h - 1, ch: 0x59, fg: 7, bg: 0, attr: 0, fp: 0 });
        }
        d.sauce = Some(gen_sauce(&mut rng));
        if let (Some((field, n)), Some(sd)) = (forced, d.sauce.as_mut()) {
            let text = |rng: &mut Rng, n: usize| -> Vec<u8> { (0..n).map(|i| if i + 1 == n { 0x21 + rng.usize(0x5E) as u8 } else { *rng.pick(&[b' ', b'a', 0xE1, b'Z', 0x03]) }).collect() };
            match field {
                0 => sd.comments = (0..n).map(|i| format!("comment line {i}").into_bytes()).collect(),
                1 => sd.title = text(&mut rng, n),
                2 => sd.author = text(&mut rng, n),
                _ => sd.group = text(&mut rng, n),
            }
        }
        if mode == "meta" && matches!(ext, "ans" | "asc" | "bin" | "icy") && rng.chance(1, 3) {
            // font names of every length: the SAUCE field holds 22 characters, built-in names are up to 31 long
            d.fonts.clear();
            if rng.bool() {
                d.fonts.push(doc::FontD { slot: 0, name: String::new(), height: 16, builtin: Some(1 + rng.usize(42)), data: vec![], sauce_name: None });
            } else {
                let n = *rng.pick(&[0usize, 1, 21, 22, 23, 24, 31, 40]);
                d.fonts.push(doc::FontD { slot: 0, name: "Custom font name 0123456789 abcdefghijklmnop"[..n].to_string(), height: 16, builtin: None, data: rng.bytes(4096), sauce_name: None });
            }
        }
        let mut content_tail = vec![];
        let mut raw_content = None;
        if mode != "meta" && matches!(ext, "ans" | "asc" | "pcb" | "avt") {
            match rng.usize(10) {
                8 => content_tail = vec![0x1A],
                9 => content_tail = vec![b'z', 0x1A, 0x1A],
                0 => content_tail = b"SAUCE00".to_vec(),
                1 => content_tail = b"COMNT".to_vec(),
                2 => content_tail = b"\x1aSAUCE".to_vec(),
                3 => raw_content = Some(vec![]),
                4 => raw_content = Some(vec![b'a'; *rng.pick(&[1usize, 127, 128, 129, 133, 192, 193])]),
                5 => {
                    // content that ends exactly like a comment block start
                    let mut c = vec![b'x'; 70];
                    c.extend_from_slice(b"COMNT");
                    c.extend(vec![b'y'; 64]);
                    raw_content = Some(c);
                }
                _ => {}
            }
        }
        Case11 {
            ext: ext.into(),
            doc: d,
            mode: mode.into(),
            content_tail,
            raw_content,
        }
    }

    fn exec(&mut self, ctx: &mut Ctx, case: &Case11) {
        let c = case.clone();
        let (out, _m) = guarded(Budgets::default(), move || run(&c));
        let _ = crate::stream::wait_decodes_idle();
        let sd = case.doc.sauce.clone().unwrap_or_default();
        ctx.count(&format!("cases_{}_{}", case.mode, case.ext), 1);
        ctx.fp(crate::rng::mix(
            crate::rng::hash_str(&format!("{}{}", case.ext, case.mode)),
            (sd.title.len() as u64) << 40 | (sd.author.len() as u64) << 32 | (sd.comments.len() as u64) << 16 | (case.doc.w as u64) << 2 | (case.raw_content.is_some() as u64) << 1 | (!case.content_tail.is_empty()) as u64,
        ));
        match out {
            Outcome::Done(res) => {
                if ctx.want_sample() && ctx.evaluations % 301 == 12 {
                    ctx.sample(json!({"ext": case.ext, "mode": case.mode, "width": case.doc.w, "height": case.doc.h, "title_len": sd.title.len(), "comments": sd.comments.len(),
                        "content_tail": String::from_utf8_lossy(&case.content_tail), "raw_content_len": case.raw_content.as_ref().map(|c| c.len())}));
                }
                if let Some((key, mut detail)) = res {
                    detail["mode"] = json!(case.mode);
                    detail["width"] = json!(case.doc.w);
                    detail["comments"] = json!(sd.comments.len());
                    ctx.violation(&key, detail, serde_json::to_value(case).unwrap());
                }
            }
            Outcome::Panicked(p) => ctx.panic_violation("sauce", &p, serde_json::to_value(case).unwrap()),
        }
    }
}

impl Prop for C11 {
    fn id(&self) -> &'static str {
        "C11"
    }
    fn rule(&self) -> &'static str {
        "for each of the ten writers that append SAUCE (ans asc avt pcb bin xb tnd adf idf icy): (enumerated) every comment count 0..=255 and every title / author / group length 0..=35 / 20 / 20; (meta) a document with generated title/author/group of every length 0..=35/20/20 over CP437 incl. blanks, control-range glyphs (0x01..0x1F) and byte strings that are also valid UTF-8, 0..=255 comment lines, flag combinations, widths 1..=1000 (format limits) and font-0 names of 0..=40 characters (built-in pages and custom fonts) is saved with SAUCE; a reference SAUCE reader written from the Revision-5 layout parses the trailer (writer side) and Buffer::get_sauce() after loading is compared with the per-variant projection (reader side: texts, comments, width, ice flag, spacing/aspect flags, font name); (cut) content vs content+trailer with the loader's default width/ice/font: SauceData::extract must report sauce_header_len == trailer length and both loads (for ans/asc also under an unclaimed extension, the ANSI fallback) must give the same size and cells; content variants ending in SAUCE00 / COMNT look-alikes or in one or more 0x1A bytes of their own (text and binary formats), empty, 1/127/128/129/133/192/193 bytes; (foreign) the same with a trailer written by the harness's reference writer (NUL padding). distinct_nontrivial = distinct (writer, mode, title/author length, comment count, width, content class) fingerprints"
    }
    fn meta(&self, ctx: &Ctx) -> Value {
        json!({"floor_evaluations": 2000, "floor_distinct": ctx.tier.pick(1500u64, 20000u64),
               "assumptions": ["the ice flag and font name a file carries are those of the document (ice mode, name of font 0), which is what the writer stores", "text fields are compared with trailing blanks/NULs stripped (padding)"]})
    }
    fn total(&mut self, ctx: &Ctx) -> u64 {
        N_ENUM + ctx.tier.pick(36_000, 400_000)
    }
    fn run_case(&mut self, ctx: &mut Ctx, k: u64) {
        let case = self.case_for(ctx, k);
        ctx.begin(k);
        self.exec(ctx, &case);
    }
    fn replay(&mut self, ctx: &mut Ctx, case: &Value) {
        let c: Case11 = serde_json::from_value(case.clone()).expect("c11 case");
        ctx.begin(0);
        self.exec(ctx, &c);
    }
}
