#!/bin/bash
# tools/seeded_isolated.sh [--tier quick] <seeded id>... | --all
# Runs tools/run_seeded.py for the given seeded changes in a private mount namespace in which /repo is a scratch clone
# of the repository (at /repo's HEAD) and /verif/harness a snapshot of the harness sources with its own target dir, so
# that the real /repo and the real harness build are left alone while the batch runs (the apply / run / undo cycle of
# run_seeded.py then happens on the clone). Results go to seeded/<id>/results.json as usual.
set -u
S=${SEEDRUN_DIR:-/var/tmp/seedrun}
tier=quick
if [ "${1:-}" = "--tier" ]; then tier=$2; shift 2; fi
if [ "${1:-}" = "--all" ]; then ids=$(ls -d /verif/seeded/C??? | xargs -n1 basename); else ids="$@"; fi
rm -rf $S/repo; mkdir -p $S
git clone -q /repo $S/repo && cp /repo/Cargo.lock $S/repo/Cargo.lock
mkdir -p $S/harness && rsync -a --delete --exclude target /verif/harness/ $S/harness/
unshare -m bash -c "
  mount --bind $S/repo /repo && mount --bind $S/harness /verif/harness || exit 2
  cd /verif
  for s in $(echo $ids); do python3 tools/run_seeded.py \$s --tier $tier 2>&1 | tail -1 | cut -c1-260; done
"
rm -rf $S/repo
