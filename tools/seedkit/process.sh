#!/bin/bash
# tools/seedkit/process.sh <PROP> [variants]  - confirm both variants in the scratch worktree and import the confirmed ones
prop=$1; vs=${2:-"q r"}
for v in $vs; do
  /verif/tools/seedkit/confirm.sh $prop $v
  python3 /verif/tools/import_seeded.py $prop $v || echo "NOT IMPORTED $prop$v"
done
