//! Small workloads for `cargo +nightly miri run --bin vmiri -- <scenario> [args]`.
//! Miri decides undefined behaviour (invalid char / str values, the XBin transmute)
//! and data races (sixel decode threads) on exactly these executions.
use std::path::Path;

use icy_engine::{BitFont, Buffer, BufferParser, Caret, Layer, TextPane};

fn feed(buf: &mut Buffer, caret: &mut Caret, p: &mut icy_engine::ansi::Parser, s: &[u8]) {
    for b in s {
        let _ = p.print_char(buf, 0, caret, *b as char);
    }
}

fn term() -> (Buffer, Caret, icy_engine::ansi::Parser) {
    let mut buf = Buffer::create((20, 4));
    buf.is_terminal_buffer = true;
    (buf, Caret::default(), icy_engine::ansi::Parser::default())
}

fn main() {
    let args: Vec<String> = std::env::args().collect();
    let scenario = args.get(1).map(|s| s.as_str()).unwrap_or("");
    match scenario {
        "fill" => {
            for v in [65u32, 0xD7FF, 0xD800, 0xDFFF, 0xE000, 0x10FFFF, 0x110000, 0x7FFF_FFFF] {
                let (mut buf, mut caret, mut p) = term();
                feed(&mut buf, &mut caret, &mut p, format!("\x1b[{v};1;1;2;5$x").as_bytes());
                let c = buf.get_char((0, 0));
                std::hint::black_box(c.ch as u32);
            }
        }
        "hexmacro" => {
            let (mut buf, mut caret, mut p) = term();
            for (a, b) in [(0x41u8, 0x42u8), (0xFF, 0x80), (0xED, 0xA0), (0x00, 0x1B), (0xC3, 0x28)] {
                feed(&mut buf, &mut caret, &mut p, format!("\x1bP1;0;1!z{a:02X}{b:02x}!3;{a:02X};\x1b\\\x1b[1*z").as_bytes());
            }
            for m in p.verif_macros().values() {
                assert!(std::str::from_utf8(m.as_bytes()).is_ok());
            }
        }
        "clipboard" => {
            let vals: [u16; 10] = [0x41, 0, 0xFF, 0xD7FF, 0xD800, 0xDBFF, 0xDC00, 0xDFFF, 0xE000, 0xFFFF];
            // every value under several attribute words of the record (0x8000 = INVISIBLE marks cells outside a selection)
            for attr in [0u16, 0x8000, 0xC000, 0x0001, 0xFFFF] {
                let mut data = vec![0u8];
                data.extend(0i32.to_le_bytes());
                data.extend(0i32.to_le_bytes());
                data.extend((vals.len() as u32).to_le_bytes());
                data.extend(1u32.to_le_bytes());
                for v in vals {
                    data.extend(v.to_le_bytes());
                    data.extend(attr.to_le_bytes());
                    data.extend([0u8; 10]);
                }
                if let Some(l) = Layer::from_clipboard_data(&data) {
                    for x in 0..vals.len() as i32 {
                        std::hint::black_box(l.get_char((x, 0)).ch as u32);
                        std::hint::black_box(l.lines[0].chars[x as usize].ch as u32);
                    }
                }
            }
        }
        "font" => {
            // glyph tables are keyed by chars built from indices (the surrogate range needs > 55000
            // glyphs, which the native raw-bits monitor covers; here the code paths run under Miri)
            let glyphs = 300usize;
            let mut psf1 = vec![0x36, 0x04, 1, 1];
            psf1.extend((0..glyphs).map(|i| i as u8));
            let f = BitFont::from_bytes("psf1", &psf1).unwrap();
            std::hint::black_box(f.glyphs.len());
            let mut psf2 = vec![0x72, 0xb5, 0x4a, 0x86];
            for v in [0u32, 32, 0, glyphs as u32, 1, 1, 8] {
                psf2.extend(v.to_le_bytes());
            }
            psf2.extend((0..glyphs).map(|i| i as u8));
            let mut f = BitFont::from_bytes("psf2", &psf2).unwrap();
            f.calculate_checksum();
            std::hint::black_box(f.convert_to_u8_data().len());
            std::hint::black_box(f.to_psf2_bytes().map(|v| v.len()).unwrap_or(0));
            for bad in [&[][..], &[0x36], &[0x36, 0x04, 0, 0, 1, 2], &[0x72, 0xb5, 0x4a, 0x86, 0, 0]] {
                let _ = BitFont::from_bytes("bad", bad);
            }
        }
        "xbin" => {
            // every compression type of the run decoder (the transmute) + font / palette blocks
            let mut d = b"XBIN\x1a".to_vec();
            d.extend(4u16.to_le_bytes());
            d.extend(2u16.to_le_bytes());
            d.push(16);
            d.push(0b0000_0100); // compressed
            d.extend([0x01, b'A', 0x07, b'B', 0x17]); // 2 cells, no compression
            d.extend([0x41, b'C', 0x07, 0x17]); // char compression, 2 cells
            d.extend([0x81, 0x1F, b'D', b'E']); // attr compression, 2 cells
            d.extend([0xC1, b'F', 0x2F]); // full compression, 2 cells
            let buf = Buffer::from_bytes(Path::new("m.xb"), false, &d).unwrap();
            assert_eq!(buf.get_char((0, 0)).ch, 'A');
            assert_eq!(buf.get_char((3, 1)).ch, 'F');
            // truncated in every position
            for l in [11usize, 12, 14, 17, 19, 22, 24] {
                let _ = Buffer::from_bytes(Path::new("m.xb"), false, &d[..l.min(d.len())]);
            }
        }
        "icy" => {
            // files prepared natively by `vcheck miri-inputs <dir>` (PNG encoding is too slow under Miri):
            // one written by the engine, one with an invalid-UTF-8 title and a surrogate in a long-form cell
            let dir = args.get(2).expect("directory with icy_ok.bin / icy_bad.bin");
            let ok = std::fs::read(format!("{dir}/icy_ok.bin")).unwrap();
            let b2 = Buffer::from_bytes(Path::new("m.icy"), false, &ok).unwrap();
            assert_eq!(b2.layers[0].get_char((0, 0)).ch, '\u{1F600}');
            assert_eq!(b2.layers[0].properties.title, "t\u{2603}");
            let bad = std::fs::read(format!("{dir}/icy_bad.bin")).unwrap();
            if let Ok(b3) = Buffer::from_bytes(Path::new("m.icy"), false, &bad) {
                std::hint::black_box(b3.layers[0].get_char((0, 0)).ch as u32);
                assert!(std::str::from_utf8(b3.layers[0].properties.title.as_bytes()).is_ok());
            }
        }
        "sixel-threads" => {
            // k images decoded on real threads, polled from the main thread while they run
            let mut buf = Buffer::create((80, 25));
            buf.is_terminal_buffer = true;
            let mut caret = Caret::default();
            let mut p = icy_engine::ansi::Parser::default();
            for i in 0..3 {
                let seq = format!("\x1b[{};{}H\x1bPq\"1;1;{};6#{};2;{};0;0!{}~\x1b\\", 1 + i, 1 + 2 * i, 4 + 2 * i, i + 1, 10 * (i + 1), 4 + 2 * i);
                feed(&mut buf, &mut caret, &mut p, seq.as_bytes());
                let _ = buf.update_sixel_threads();
            }
            let mut spins = 0;
            while !buf.sixel_threads.is_empty() && spins < 100_000 {
                let _ = buf.update_sixel_threads();
                std::thread::yield_now();
                spins += 1;
            }
            assert!(buf.sixel_threads.is_empty());
            assert_eq!(buf.layers[0].sixels.len(), 3);
            for (i, s) in buf.layers[0].sixels.iter().enumerate() {
                assert_eq!(s.get_width(), 4 + 2 * i as i32);
                assert_eq!(s.picture_data.len(), (s.get_width() * s.get_height() * 4) as usize);
            }
        }
        "sixel-cover" => {
            // two small images, then one that covers both: the poll that hands the third image over removes the two older
            // ones while other decode threads may still be running
            let mut buf = Buffer::create((80, 25));
            buf.is_terminal_buffer = true;
            let mut caret = Caret::default();
            let mut p = icy_engine::ansi::Parser::default();
            let small = |col: u8| format!("\x1bPq\"1;1;6;6#{col};2;100;0;0#{col}!6~\x1b\\");
            let big = "\x1bPq\"1;1;40;36#3;2;0;100;0#3!40~-!40~-!40~-!40~-!40~-!40~\x1b\\";
            let seq = format!("\x1b[2;2H{}\x1b[2;4H{}\x1b[1;1H{big}", small(1), small(2));
            feed(&mut buf, &mut caret, &mut p, seq.as_bytes());
            let mut spins = 0;
            while !buf.sixel_threads.is_empty() && spins < 100_000 {
                let _ = buf.update_sixel_threads();
                std::thread::yield_now();
                spins += 1;
            }
            assert!(buf.sixel_threads.is_empty());
            assert_eq!(buf.layers[0].sixels.len(), 1);
            assert_eq!(buf.layers[0].sixels[0].get_width(), 40);
        }
        "sixel-loader" => {
            // the file loader's own wait loop over the decode queue
            let small = |col: u8| format!("\x1bPq\"1;1;6;6#{col};2;100;0;0#{col}!6~\x1b\\");
            let file = format!("\x1b[2;2H{}\x1b[2;20H{}\x1b[5;1Htext", small(1), small(2));
            let b = Buffer::from_bytes(Path::new("m.ans"), false, file.as_bytes()).unwrap();
            assert!(b.sixel_threads.is_empty());
            let images: usize = b.layers.iter().map(|l| l.sixels.len()).sum();
            assert_eq!(images, 2);
        }
        _ => {
            eprintln!("unknown scenario");
            std::process::exit(2);
        }
    }
    println!("MIRI-OK {scenario}");
}
