//! C15 — Avatar, PCBoard, Ctrl-A, Renegade, ASCII and ATASCII files parse back as saved.
use std::path::Path;

use icy_engine::{Buffer, ScreenPreperation, TextPane};
use serde::{Deserialize, Serialize};
use serde_json::{json, Value};

use crate::ctx::Ctx;
use crate::doc::{self, CellD, DocD};
use crate::files::save_opts;
use crate::mon::{guarded, Budgets, Outcome};
use crate::rng::Rng;
use crate::shrink::shrink_list;
use crate::Prop;

const FMTS: [&str; 6] = ["avt", "pcb", "msg", "an1", "asc", "ata"];

#[derive(Clone, Debug, Serialize, Deserialize)]
pub struct Case15 {
    pub ext: String,
    pub doc: DocD,
    /// 0 none, 1 clear screen, 2 home
    pub prep: u8,
}

fn run(case: &Case15) -> Option<(String, Value)> {
    let ext = case.ext.as_str();
    let src = doc::build(&case.doc);
    let mut opts = save_opts(false, true);
    opts.screen_preparation = match case.prep {
        1 => ScreenPreperation::ClearScreen,
        2 => ScreenPreperation::Home,
        _ => ScreenPreperation::None,
    };
    let bytes = match src.to_bytes(ext, &opts) {
        Ok(b) => b,
        Err(e) => return Some((format!("{ext}|save-error"), json!({"error": e.to_string()}))),
    };
    let got = match Buffer::from_bytes(Path::new(&format!("f.{ext}")), false, &bytes) {
        Ok(b) => b,
        Err(e) => return Some((format!("{ext}|load-error"), json!({"error": e.to_string()}))),
    };
    let l = &case.doc.layers[0];
    // every cell of the source that is significant: all cells up to the last set cell of its row
    let mut row_len = vec![0i32; case.doc.h as usize];
    for c in &l.cells {
        row_len[c.y as usize] = row_len[c.y as usize].max(c.x + 1);
    }
    for y in 0..case.doc.h {
        for x in 0..row_len[y as usize] {
            let s = src.get_char((x, y));
            let g = if x < got.get_width() && y < got.get_height() { got.get_char((x, y)) } else { icy_engine::AttributedChar::default() };
            let s_ch = if s.ch == '\0' { ' ' } else { s.ch };
            let g_ch = if g.ch == '\0' { ' ' } else { g.ch };
            let full_row = row_len[y as usize] == case.doc.w;
            let pos_class = if full_row { "full-width-row" } else { "short-row" };
            if s_ch != g_ch {
                return Some((
                    format!("{ext}|char|{pos_class}"),
                    json!({"x": x, "y": y, "saved": doc::describe_cell(&s), "loaded": doc::describe_cell(&g), "row_length": row_len[y as usize], "file": crate::stream::printable(&bytes)}),
                ));
            }
            match ext {
                "asc" => {}
                "ata" => {
                    let (si, gi) = (s.attribute.get_background() > 0, g.attribute.get_background() > 0);
                    if si != gi {
                        return Some((format!("{ext}|inverse-video|{pos_class}"), json!({"x": x, "y": y, "saved": doc::describe_cell(&s), "loaded": doc::describe_cell(&g)})));
                    }
                }
                _ => {
                    let sfg = crate::picture::displayed_fg(&src, &s);
                    let gfg = crate::picture::displayed_fg(&got, &g);
                    let sbg = src.palette.get_rgb(s.attribute.get_background());
                    let gbg = got.palette.get_rgb(g.attribute.get_background());
                    if sfg != gfg || sbg != gbg {
                        let first_in_file = x == 0 && y == 0;
                        return Some((
                            format!("{ext}|{}|{pos_class}{}", if sfg != gfg { "foreground" } else { "background" }, if first_in_file { "|first-cell" } else { "" }),
                            json!({"x": x, "y": y, "saved": doc::describe_cell(&s), "loaded": doc::describe_cell(&g), "file": crate::stream::printable(&bytes)}),
                        ));
                    }
                }
            }
        }
    }
    None
}

fn gen(rng: &mut Rng, ext: &str) -> DocD {
    let w = if ext == "ata" { 40 } else { 80 };
    let hmax = if rng.chance(1, 5) { 40 } else { 8 };
    let h = 1 + rng.usize(hmax) as i32;
    let mut d = DocD::single(w, h);
    d.ice = 1;
    if ext == "ata" {
        d.buffer_type = 3;
    }
    let excluded: &[u32] = match ext {
        "pcb" => &[b'@' as u32],
        "an1" => &[b'|' as u32],
        _ => &[],
    };
    let small = rng.chance(1, 3);
    let mut attr = (7u32, 0u32);
    for y in 0..h {
        let len = match rng.usize(6) {
            0 => 0,
            1 | 2 => w,
            _ => rng.range(0, w as i64) as i32,
        };
        let len = if y == h - 1 && len == 0 { 1 + rng.usize(w as usize) as i32 } else { len };
        for x in 0..len {
            let ch = loop {
                let c = if ext == "ata" {
                    0x20 + rng.below(0x5D) as u32
                } else if small {
                    *rng.pick(&[0x41u32, 0x20, 0xDB, 0x42])
                } else {
                    let v = rng.usize(0x5F + 0x7F);
                    if v < 0x5F {
                        0x20 + v as u32
                    } else {
                        0x80 + (v - 0x5F) as u32
                    }
                };
                if !excluded.contains(&c) {
                    break c;
                }
            };
            // attribute sequences: keep, change fg, change bg, change both
            match rng.usize(6) {
                0 => attr.0 = rng.below(16) as u32,
                1 => attr.1 = rng.below(8) as u32,
                2 => attr = (rng.below(16) as u32, rng.below(8) as u32),
                _ => {}
            }
            let (fg, bg) = match ext {
                // the ASCII format drops the colours, but the buffer that is saved has them (a blank on a coloured
                // background is content of its row)
                "asc" if !small => (7, 0),
                "ata" => {
                    if rng.chance(1, 4) {
                        (0, 7)
                    } else {
                        (7, 0)
                    }
                }
                _ => attr,
            };
            // the last cell of a row must not be a blank on black (then the row would be shorter)
            let ch = if x == len - 1 && ch == 0x20 && bg == 0 { 0x58 } else { ch };
            d.layers[0].cells.push(CellD { x, y, ch, fg, bg, attr: 0, fp: 0 });
        }
    }
    if rng.chance(1, 5) {
        // the picture ends in a run of n equal cells, n a byte value with a meaning of its own at the end of a file or of a
        // run-length record (line feed, form feed, carriage return, ^V, ^Y, the DOS EOF byte 0x1A, and their neighbours)
        let n = *rng.pick(&[9i32, 10, 12, 13, 22, 25, 26, 26, 26, 27, 32]);
        let n = n.min(w);
        let y = h - 1;
        d.layers[0].cells.retain(|c| c.y != y);
        let lead = if rng.bool() { 0 } else { rng.usize((w - n) as usize + 1) as i32 };
        let (ch, fg, bg) = (*rng.pick(&[0x23u32, 0x41, if ext == "ata" { 0x58 } else { 0xDB }, 0x2A]), if ext == "asc" || ext == "ata" { 7 } else { 1 + rng.below(15) as u32 }, if ext == "asc" || ext == "ata" { 0 } else { rng.below(8) as u32 });
        for x in 0..lead {
            d.layers[0].cells.push(CellD { x, y, ch: 0x61 + (x as u32 % 20), fg: 7, bg: 0, attr: 0, fp: 0 });
        }
        for x in lead..lead + n {
            d.layers[0].cells.push(CellD { x, y, ch, fg, bg, attr: 0, fp: 0 });
        }
    }
    d
}

#[derive(Default)]
pub struct C15 {}

impl C15 {
    fn exec(&mut self, ctx: &mut Ctx, case: &Case15) {
        let c = case.clone();
        let (out, _m) = guarded(Budgets::default(), move || run(&c));
        ctx.count(&format!("files_{}", case.ext), 1);
        ctx.count("cells_compared", case.doc.layers[0].cells.len() as u64);
        let l = &case.doc.layers[0];
        ctx.fp(crate::rng::mix(
            crate::rng::hash_str(&case.ext),
            (case.doc.h as u64) << 40 | (case.prep as u64) << 32 | crate::rng::hash_str(&format!("{:?}", l.cells.iter().take(6).map(|c| (c.ch, c.fg, c.bg)).collect::<Vec<_>>())) >> 32,
        ));
        match out {
            Outcome::Done(res) => {
                if ctx.want_sample() && ctx.evaluations % 501 == 17 {
                    ctx.sample(json!({"ext": case.ext, "height": case.doc.h, "prep": case.prep, "cells": l.cells.len(), "first_cells": l.cells.iter().take(5).collect::<Vec<_>>()}));
                }
                if let Some((key, detail)) = res {
                    // shrink: drop cells (keeping rows well-formed is not required: any cell set is a valid document)
                    let mut used = case.clone();
                    if !ctx.replay && ctx.seen(&key) == 0 {
                        let cells = shrink_list(&l.cells, 250, |cand| {
                            let mut c2 = case.clone();
                            c2.doc.layers[0].cells = cand.to_vec();
                            // the last row must stay non-empty (quantifier)
                            if !cand.iter().any(|c| c.y == case.doc.h - 1) {
                                return false;
                            }
                            run(&c2).map(|(k, _)| k == key).unwrap_or(false)
                        });
                        used.doc.layers[0].cells = cells;
                    }
                    let detail2 = run(&used).map(|(_, d)| d).unwrap_or(detail);
                    ctx.violation(&format!("mismatch|{key}"), detail2, serde_json::to_value(&used).unwrap());
                }
            }
            Outcome::Panicked(p) => ctx.panic_violation("text-format", &p, serde_json::to_value(case).unwrap()),
        }
    }
}

impl Prop for C15 {
    fn id(&self) -> &'static str {
        "C15"
    }
    fn rule(&self) -> &'static str {
        "single-layer buffers of width 80 (40 for ATASCII) and height 1..=40 whose last row is not empty, over printable CP437 (0x20..=0x7E, 0x80..=0xFE; ATASCII 0x20..=0x7C) minus each format's lead-in characters, with attribute sequences over fg 0..=15 x bg 0..=7 (keep / change fg / change bg / both), rows of every length 0..=width incl. full-width rows, one picture in five ending in a run of 9/10/12/13/22/25/26/27/32 equal cells (byte values with a meaning of their own at the end of a file or of a run-length record), all three screen preparations, are written with the real writer and parsed back with the real loader; every cell up to the end of its row is compared: character (NUL = blank), and for Avatar/PCBoard/Ctrl-A/Renegade the displayed foreground and background RGB, for ATASCII inverse video; a third of the ASCII documents carry colours as well (only their characters are compared). distinct_nontrivial = distinct (format, height, preparation, leading cells) documents"
    }
    fn meta(&self, ctx: &Ctx) -> Value {
        json!({"floor_evaluations": 3000, "floor_distinct": ctx.tier.pick(2500u64, 30000u64),
               "assumptions": ["printable = 0x20..=0x7E and 0x80..=0xFE: C0 codes, DEL and 0xFF are control codes of the underlying emulation", "blank-on-black cells after the last set cell of a row are not significant"]})
    }
    fn total(&mut self, ctx: &Ctx) -> u64 {
        ctx.tier.pick(120_000, 1_000_000)
    }
    fn run_case(&mut self, ctx: &mut Ctx, k: u64) {
        let mut rng = ctx.rng(k);
        let ext = FMTS[(k % 6) as usize];
        let case = Case15 {
            ext: ext.into(),
            doc: gen(&mut rng, ext),
            prep: ((k / 6) % 3) as u8,
        };
        ctx.begin(k);
        self.exec(ctx, &case);
    }
    fn replay(&mut self, ctx: &mut Ctx, case: &Value) {
        let c: Case15 = serde_json::from_value(case.clone()).expect("c15 case");
        ctx.begin(0);
        self.exec(ctx, &c);
    }
}
