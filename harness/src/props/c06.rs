//! C06 — XBin compression is transparent and conforms to the XBin specification.
use std::path::Path;

use icy_engine::{AttributedChar, BitFont, Buffer, FontMode, IceMode, PaletteMode, TextPane};
use serde::{Deserialize, Serialize};
use serde_json::{json, Value};

use crate::ctx::Ctx;
use crate::doc::make_attr;
use crate::files::save_opts;
use crate::mon::{guarded, Budgets, Outcome};
use crate::rng::Rng;
use crate::Prop;

/// one cell: char code, fg, bg, blink, font page
pub type Cell = (u8, u8, u8, bool, u8);

#[derive(Clone, Debug, Serialize, Deserialize)]
pub struct Case06 {
    pub w: i32,
    pub ice: bool,
    /// rows of cells (all rows have width w)
    pub rows: Vec<Vec<Cell>>,
    pub class: String,
    /// save with a SAUCE record behind the picture
    #[serde(default)]
    pub sauce: bool,
}

const SYMS: [Cell; 18] = {
    let chars = [b'A', b' ', 0xDB];
    let attrs = [(7u8, 0u8), (1, 4), (2, 0)];
    let mut out = [(0u8, 0u8, 0u8, false, 0u8); 18];
    let mut i = 0;
    while i < 18 {
        let c = chars[i % 3];
        let a = attrs[(i / 3) % 3];
        out[i] = (c, a.0, a.1, false, (i / 9) as u8);
        i += 1;
    }
    out
};

const SYMS4: [Cell; 4] = [(b'A', 7, 0, false, 0), (b'B', 7, 0, false, 0), (b'A', 1, 0, false, 0), (b'B', 1, 0, false, 0)];

fn build(case: &Case06) -> Buffer {
    let h = case.rows.len() as i32;
    let mut buf = Buffer::new((case.w, h));
    buf.ice_mode = if case.ice { IceMode::Ice } else { IceMode::Blink };
    let two = case.rows.iter().flatten().any(|c| c.4 == 1);
    if two {
        buf.font_mode = FontMode::FixedSize;
        buf.palette_mode = PaletteMode::Free8;
        if let Ok(f) = BitFont::from_ansi_font_page(1) {
            buf.set_font(1, f);
        }
    }
    for (y, row) in case.rows.iter().enumerate() {
        for (x, c) in row.iter().enumerate() {
            let mut a = make_attr(c.1 as u32, c.2 as u32, 0, c.4 as u16);
            a.set_is_blinking(c.3);
            buf.layers[0].set_char((x as i32, y as i32), AttributedChar::new(c.0 as char, a));
        }
    }
    buf
}

struct Header {
    w: usize,
    h: usize,
    flags: u8,
    data_start: usize,
}

fn parse_header(b: &[u8]) -> Result<Header, String> {
    if b.len() < 11 || &b[0..4] != b"XBIN" || b[4] != 0x1A {
        return Err("bad XBIN id".into());
    }
    let w = u16::from_le_bytes([b[5], b[6]]) as usize;
    let h = u16::from_le_bytes([b[7], b[8]]) as usize;
    let fs = if b[9] == 0 { 16 } else { b[9] as usize };
    let flags = b[10];
    let mut o = 11;
    if flags & 1 != 0 {
        o += 48;
    }
    if flags & 2 != 0 {
        o += 256 * fs * if flags & 16 != 0 { 2 } else { 1 };
    }
    if o > b.len() {
        return Err("palette / font block longer than the file".into());
    }
    Ok(Header { w, h, flags, data_start: o })
}

/// strict decoder written from doc/FileFormats/x_bin.htm: compression works ROW by ROW,
/// a run covers 1..=64 cells and may not cross the end of a row
fn spec_decode(b: &[u8]) -> Result<(Header, Vec<Vec<(u8, u8)>>, usize), String> {
    let hd = parse_header(b)?;
    let mut o = hd.data_start;
    let mut rows = Vec::new();
    for y in 0..hd.h {
        let mut row: Vec<(u8, u8)> = Vec::with_capacity(hd.w);
        while row.len() < hd.w {
            if o >= b.len() {
                return Err(format!("row {y}: data ends after {} of {} cells", row.len(), hd.w));
            }
            let c = b[o];
            o += 1;
            let n = (c & 0x3F) as usize + 1;
            if row.len() + n > hd.w {
                return Err(format!("row {y}: run of {n} at column {} crosses the row boundary (width {})", row.len(), hd.w));
            }
            match c >> 6 {
                0 => {
                    if o + 2 * n > b.len() {
                        return Err(format!("row {y}: uncompressed run truncated"));
                    }
                    for i in 0..n {
                        row.push((b[o + 2 * i], b[o + 2 * i + 1]));
                    }
                    o += 2 * n;
                }
                1 => {
                    if o + 1 + n > b.len() {
                        return Err(format!("row {y}: character run truncated"));
                    }
                    let ch = b[o];
                    for i in 0..n {
                        row.push((ch, b[o + 1 + i]));
                    }
                    o += 1 + n;
                }
                2 => {
                    if o + 1 + n > b.len() {
                        return Err(format!("row {y}: attribute run truncated"));
                    }
                    let at = b[o];
                    for i in 0..n {
                        row.push((b[o + 1 + i], at));
                    }
                    o += 1 + n;
                }
                _ => {
                    if o + 2 > b.len() {
                        return Err(format!("row {y}: char/attribute run truncated"));
                    }
                    for _ in 0..n {
                        row.push((b[o], b[o + 1]));
                    }
                    o += 2;
                }
            }
        }
        rows.push(row);
    }
    Ok((hd, rows, o))
}

fn expected_attr(c: &Cell, two_fonts: bool, ice: bool) -> u8 {
    let mut a = (c.1 & 0x0F) | (c.2 & if ice { 0x0F } else { 0x07 }) << 4;
    if !ice && c.3 {
        a |= 0x80;
    }
    if two_fonts {
        a = (a & 0xF7) | if c.4 == 1 { 8 } else { 0 };
    }
    a
}

fn run(case: &Case06) -> Option<(String, Value)> {
    let buf = build(case);
    let two = case.rows.iter().flatten().any(|c| c.4 == 1) && case.rows.iter().flatten().any(|c| c.4 == 0);
    let comp = match buf.to_bytes("xb", &save_opts(case.sauce, true)) {
        Ok(b) => b,
        Err(e) => return Some(("xbin|save-error|compressed".into(), json!({"error": e.to_string()}))),
    };
    let raw = match buf.to_bytes("xb", &save_opts(case.sauce, false)) {
        Ok(b) => b,
        Err(e) => return Some(("xbin|save-error|uncompressed".into(), json!({"error": e.to_string()}))),
    };
    // (1) the compressed stream against the specification
    match spec_decode(&comp) {
        Err(e) => {
            let kind = if e.contains("crosses") { "run-crosses-row" } else if e.contains("ends after") { "row-too-short" } else { "truncated" };
            return Some((format!("xbin|spec|{kind}"), json!({"what": e, "width": case.w})));
        }
        Ok((hd, rows, end)) => {
            if hd.flags & 4 == 0 {
                return Some(("xbin|spec|compress-flag-missing".into(), json!({})));
            }
            if hd.w != case.w as usize || hd.h != case.rows.len() {
                return Some(("xbin|spec|header-size".into(), json!({"header": [hd.w, hd.h], "source": [case.w, case.rows.len()]})));
            }
            // "nothing but the optional SAUCE record follows the last row": EOF marker + 128-byte record
            let tail = &comp[end..];
            let sauce_ok = case.sauce && tail.len() == 129 && tail[0] == 0x1A && &tail[1..8] == b"SAUCE00";
            if end != comp.len() && !sauce_ok {
                return Some(("xbin|spec|trailing-bytes".into(), json!({"decoded_until": end, "file_len": comp.len(), "with_sauce": case.sauce})));
            }
            for (y, (src, dec)) in case.rows.iter().zip(rows.iter()).enumerate() {
                for (x, (s, d)) in src.iter().zip(dec.iter()).enumerate() {
                    let want = (s.0, expected_attr(s, two, case.ice));
                    if *d != want {
                        let field = if d.0 != want.0 { "char" } else if (d.1 ^ want.1) & 8 != 0 && two { "font-page-bit" } else { "attribute" };
                        return Some((
                            format!("xbin|spec|decoded-cell|{field}"),
                            json!({"x": x, "y": y, "source_cell": s, "expected_bytes": want, "decoded_bytes": d, "row": src}),
                        ));
                    }
                }
            }
        }
    }
    // (2) engine loader: compressed == uncompressed == source
    let lc = Buffer::from_bytes(Path::new("c.xb"), false, &comp);
    let lr = Buffer::from_bytes(Path::new("r.xb"), false, &raw);
    let (lc, lr) = match (lc, lr) {
        (Ok(a), Ok(b)) => (a, b),
        (a, b) => return Some(("xbin|load-error".into(), json!({"compressed": a.err().map(|e| e.to_string()), "uncompressed": b.err().map(|e| e.to_string())}))),
    };
    for (name, l) in [("compressed", &lc), ("uncompressed", &lr)] {
        if l.get_width() != case.w {
            return Some((format!("xbin|loader|{name}|width"), json!({"loaded": l.get_width(), "source": case.w})));
        }
        for (y, row) in case.rows.iter().enumerate() {
            for (x, s) in row.iter().enumerate() {
                let c = l.get_char((x as i32, y as i32));
                let page = if two { s.4 as usize } else { 0 };
                let ok = c.ch as u32 == s.0 as u32
                    && c.attribute.get_foreground() == s.1 as u32
                    && c.attribute.get_background() == s.2 as u32
                    && c.attribute.is_blinking() == (s.3 && !case.ice)
                    && c.get_font_page() == page;
                if !ok {
                    let field = if c.ch as u32 != s.0 as u32 {
                        "char"
                    } else if c.get_font_page() != page {
                        "font-page"
                    } else {
                        "colour"
                    };
                    return Some((
                        format!("xbin|loader|{name}|{field}"),
                        json!({"x": x, "y": y, "source_cell": s, "loaded": crate::doc::describe_cell(&c), "row": row}),
                    ));
                }
            }
        }
    }
    None
}

fn enum_row(mut idx: u64, w: usize, syms: &[Cell]) -> Vec<Cell> {
    let n = syms.len() as u64;
    (0..w)
        .map(|_| {
            let s = syms[(idx % n) as usize];
            idx /= n;
            s
        })
        .collect()
}

const ROWS_PER_BUF: u64 = 4096;

#[derive(Default)]
pub struct C06 {
    /// (width, first row index, count, alphabet 18|4)
    blocks: Vec<(usize, u64, u64, u8)>,
    sampled: bool,
}

impl C06 {
    fn case_for(&self, ctx: &Ctx, k: u64) -> Case06 {
        if (k as usize) < self.blocks.len() {
            let (w, first, count, alpha) = self.blocks[k as usize];
            let syms: &[Cell] = if alpha == 18 { &SYMS } else { &SYMS4 };
            return Case06 {
                w: w as i32,
                ice: false,
                rows: (first..first + count).map(|i| enum_row(i, w, syms)).collect(),
                class: format!("exhaustive-w{w}-a{alpha}"),
                sauce: false,
            };
        }
        let mut rng = ctx.rng(k);
        let w = match rng.usize(4) {
            0 => *rng.pick(&[63, 64, 65, 127, 128, 129, 1, 2]),
            1 if self.sampled => 7,
            _ => rng.range(1, 200) as i32,
        };
        let h = 1 + rng.usize(30);
        let ice = rng.bool();
        let two = rng.chance(1, 3);
        let small = rng.chance(2, 3);
        // a fifth of the full-alphabet pictures have rows without any repetition (one literal run up to the 64-cell limit) in
        // which, right at a multiple of 64, one cell repeats the character, the attribute or both of its left neighbour
        let literal = !small && rng.chance(1, 3);
        // a quarter of the other full-alphabet pictures have rows in which stretches of cells share their colours and differ
        // in the character (attribute-compressed runs), or share the character and differ in colours (character-compressed
        // runs), and inside a stretch single cells toggle only the blink flag, only the font page or only one colour
        let stretches = !small && !literal && rng.chance(1, 3);
        let rows = (0..h)
            .map(|_| {
                let mut row: Vec<Cell> = Vec::with_capacity(w as usize);
                if stretches {
                    while (row.len() as i32) < w {
                        let base: Cell = (rng.byte(), rng.below(if two { 8 } else { 16 }) as u8, rng.below(if ice { 16 } else { 8 }) as u8, !ice && rng.bool(), if two { rng.below(2) as u8 } else { 0 });
                        let share_attr = rng.bool();
                        let n = 2 + rng.usize(12);
                        for _ in 0..n {
                            if (row.len() as i32) >= w {
                                break;
                            }
                            let mut c = base;
                            if share_attr {
                                c.0 = rng.byte();
                            } else {
                                c.1 = rng.below(if two { 8 } else { 16 }) as u8;
                                c.2 = rng.below(if ice { 16 } else { 8 }) as u8;
                            }
                            match rng.usize(8) {
                                0 if !ice => c.3 = !c.3,
                                1 if two => c.4 ^= 1,
                                2 => c.1 = (c.1 + 1) % if two { 8 } else { 16 },
                                _ => {}
                            }
                            row.push(c);
                        }
                    }
                    return row;
                }
                if literal {
                    while (row.len() as i32) < w {
                        let prev = row.last().copied();
                        let cell: Cell = loop {
                            let c: Cell = (rng.byte(), rng.below(if two { 8 } else { 16 }) as u8, rng.below(if ice { 16 } else { 8 }) as u8, !ice && rng.chance(1, 4), if two { rng.below(2) as u8 } else { 0 });
                            match prev {
                                Some(p) if p.0 == c.0 || (p.1, p.2, p.3, p.4) == (c.1, c.2, c.3, c.4) => continue,
                                _ => break c,
                            }
                        };
                        row.push(cell);
                    }
                    for base in [64usize, 128, 192] {
                        for d in 0..3usize {
                            let i = base + d;
                            if i >= 1 && i < row.len() && rng.chance(1, 3) {
                                let p = row[i - 1];
                                row[i] = match rng.usize(3) {
                                    0 => (p.0, row[i].1, row[i].2, row[i].3, row[i].4),
                                    1 => (row[i].0, p.1, p.2, p.3, p.4),
                                    _ => p,
                                };
                            }
                        }
                    }
                    return row;
                }
                while (row.len() as i32) < w {
                    let cell: Cell = if small {
                        let mut c = *rng.pick(&SYMS);
                        if !two {
                            c.4 = 0;
                        }
                        c
                    } else {
                        (rng.byte(), rng.below(if two { 8 } else { 16 }) as u8, rng.below(if ice { 16 } else { 8 }) as u8, !ice && rng.chance(1, 4), if two { rng.below(2) as u8 } else { 0 })
                    };
                    let run = if rng.chance(1, 3) { 1 + rng.usize(70) } else { 1 };
                    for _ in 0..run {
                        if (row.len() as i32) < w {
                            row.push(cell);
                        }
                    }
                }
                row
            })
            .collect();
        let mut rows: Vec<Vec<Cell>> = rows;
        // a third of the random pictures carry a SAUCE record; half of those end in bytes that look like the EOF marker in
        // front of the record (character 0x1A, or the attribute byte 0x1A = blue background, light green foreground)
        let sauce = rng.chance(1, 3);
        let mut tail = "";
        if sauce && rng.bool() {
            let n = 1 + rng.usize(3).min(w as usize - 1);
            let as_char = rng.bool();
            tail = if as_char { "-ends-in-char-1A" } else { "-ends-in-attr-1A" };
            if let Some(last) = rows.last_mut() {
                let len = last.len();
                for c in last[len - n..].iter_mut() {
                    if as_char {
                        c.0 = 0x1A;
                    } else {
                        *c = (c.0, if two { 2 } else { 10 }, 1, false, if two { 1 } else { 0 });
                    }
                }
            }
        }
        Case06 {
            w,
            ice,
            rows,
            class: format!("random-{}-{}{}{tail}", if small { "small" } else if literal { "literal" } else if stretches { "stretches" } else { "full" }, if two { "2fonts" } else { "1font" }, if sauce { "-sauce" } else { "" }),
            sauce,
        }
    }

    fn exec(&mut self, ctx: &mut Ctx, case: &Case06) {
        let c = case.clone();
        let (out, _m) = guarded(Budgets { work: 2_000_000_000, ..Budgets::default() }, move || run(&c));
        ctx.count("rows_checked", case.rows.len() as u64);
        ctx.count("cells_checked", case.rows.len() as u64 * case.w as u64);
        ctx.count(&format!("buffers_{}", case.class.split("-w").next().unwrap_or("")), 1);
        if case.class.starts_with("exhaustive") {
            // every row of an exhaustive block is a distinct case
            let base = crate::rng::hash_str(&case.class);
            for (i, r) in case.rows.iter().enumerate().step_by(if case.rows.len() > 64 { 16 } else { 1 }) {
                ctx.fp(crate::rng::mix(base, crate::rng::hash_str(&format!("{i}{:?}", r.first()))));
            }
        } else {
            ctx.fp(crate::rng::mix(case.w as u64, crate::rng::hash_str(&format!("{}{:?}", case.class, case.rows.first().map(|r| r.iter().take(8).collect::<Vec<_>>())))));
        }
        match out {
            Outcome::Done(res) => {
                if ctx.want_sample() && ctx.evaluations % 53 == 5 {
                    ctx.sample(json!({"class": case.class, "width": case.w, "rows": case.rows.len(), "first_row": case.rows.first()}));
                }
                if let Some((key, mut detail)) = res {
                    detail["class"] = json!(case.class);
                    detail["width"] = json!(case.w);
                    // report the single offending row as the replayable case
                    let mut small = case.clone();
                    if let Some(y) = detail.get("y").and_then(|y| y.as_u64()) {
                        small.rows = vec![case.rows[y as usize].clone()];
                        let c2 = small.clone();
                        if run(&c2).is_none() {
                            small = case.clone();
                        }
                    }
                    ctx.violation(&key, detail, serde_json::to_value(&small).unwrap());
                }
            }
            Outcome::Panicked(p) => ctx.panic_violation("xbin", &p, serde_json::to_value(case).unwrap()),
        }
    }
}

impl Prop for C06 {
    fn id(&self) -> &'static str {
        "C06"
    }
    fn rule(&self) -> &'static str {
        "rows are independent in XBin compression (the run state resets per row), so exhaustive rows are packed 4096 per buffer: ALL rows of width 1..=7 over 3 characters x 3 attributes x 2 font pages (thorough; quick: widths 1..=6 completely plus a seeded sample of width 7) and all rows of width 1..=10 over a 2x2 alphabet; plus seeded random buffers of width 1..=200 x height 1..=30 from small and full alphabets, one or two fonts, blink or ice, widths 63/64/65/127/128/129 forced; a third of the full-alphabet pictures have repetition-free rows (one literal run up to the 64-cell limit) with a cell at column 64..66 / 128..130 / 192..194 that repeats the character, the attribute or both of its left neighbour; a quarter of the others have stretches of cells that share their colours (or their character) in which single cells toggle only the blink flag, only the font page or only one colour; a third of the random pictures are saved with a SAUCE record, half of those end in one to three cells whose character or attribute byte is 0x1A (the EOF marker in front of the record). Oracles: (1) a strict decoder written from doc/FileFormats/x_bin.htm applied to Buffer::to_bytes(\"xb\", compress) - every run 1..=64 cells, no run crosses a row, every row decodes to exactly the width, no trailing bytes other than EOF + the 128-byte SAUCE record when one was asked for, decoded (char, attribute incl. font-page bit) == source; (2) engine loader: compressed == uncompressed == source per cell incl. font page. distinct_nontrivial = distinct sampled (block, row) of the exhaustive part and (width, class, first cells) of the random part"
    }
    fn meta(&self, ctx: &Ctx) -> Value {
        json!({"floor_evaluations": 200, "floor_distinct": ctx.tier.pick(1000u64, 5000u64),
               "exhaustive": false,
               "exhaustive_part": if ctx.tier == crate::ctx::Tier::Thorough { "all 18^w rows for w=1..=7 and all 4^w rows for w=1..=10 enumerated completely" } else { "all 18^w rows for w=1..=6 and all 4^w rows for w=1..=10 enumerated completely; w=7 sampled" },
               "assumptions": ["in 512-character mode the foreground is limited to 0..=7 (bit 3 of the attribute selects the font)"]})
    }
    fn total(&mut self, ctx: &Ctx) -> u64 {
        self.blocks.clear();
        let maxw = ctx.tier.pick(6usize, 7usize);
        self.sampled = maxw < 7;
        for w in 1..=maxw {
            let n = 18u64.pow(w as u32);
            let mut first = 0;
            while first < n {
                let c = ROWS_PER_BUF.min(n - first);
                self.blocks.push((w, first, c, 18));
                first += c;
            }
        }
        for w in 1..=10usize {
            let n = 4u64.pow(w as u32);
            let mut first = 0;
            while first < n {
                let c = ROWS_PER_BUF.min(n - first);
                self.blocks.push((w, first, c, 4));
                first += c;
            }
        }
        self.blocks.len() as u64 + ctx.tier.pick(16_000, 300_000)
    }
    fn run_case(&mut self, ctx: &mut Ctx, k: u64) {
        let case = self.case_for(ctx, k);
        ctx.begin(k);
        self.exec(ctx, &case);
    }
    fn replay(&mut self, ctx: &mut Ctx, case: &Value) {
        let c: Case06 = serde_json::from_value(case.clone()).expect("c06 case");
        ctx.begin(0);
        self.exec(ctx, &c);
    }
}

#[allow(dead_code)]
fn unused(_: &mut Rng) {}
