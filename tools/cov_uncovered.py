#!/usr/bin/env python3
"""tools/cov_uncovered.py <substring>... : from work/cov/all.lcov list, for engine files matching a substring,
the function headers whose first line was never executed, and the uncovered line ranges (diagnostic)."""
import sys, re, collections
want = sys.argv[1:]
da = collections.defaultdict(dict); cur = None
for l in open('/verif/work/cov/all.lcov'):
    l = l.strip()
    if l.startswith('SF:'): cur = l[3:]
    elif l.startswith('DA:'):
        a, b = l[3:].split(',')[:2]; da[cur][int(a)] = da[cur].get(int(a), 0) + int(b)
for f in sorted(da):
    if not f.startswith('/repo/src') or (want and not any(w in f for w in want)): continue
    try: src = open(f, errors='replace').read().splitlines()
    except OSError: continue
    fns = []
    for ln, n in sorted(da[f].items()):
        if n == 0 and ln <= len(src) and re.search(r'\bfn\s+\w+', src[ln-1]):
            fns.append((ln, src[ln-1].strip()[:110]))
    unc = sorted(l for l, n in da[f].items() if n == 0)
    ranges = []; 
    for l in unc:
        if ranges and l <= ranges[-1][1] + 2: ranges[-1][1] = l
        else: ranges.append([l, l])
    print(f"== {f[len('/repo/'):]}: {len(unc)} uncovered lines, {len(fns)} uncovered fns")
    for ln, t in fns: print(f"   fn@{ln}: {t}")
    big = [r for r in ranges if r[1]-r[0] >= 4]
    print("   ranges>=5:", ' '.join(f"{a}-{b}" for a, b in big)[:600])
