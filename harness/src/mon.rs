//! Monitors shared by all checks: panic capture, allocation counter, CPU clock,
//! per-case guard with work budgets.
use std::alloc::{GlobalAlloc, Layout, System};
use std::cell::RefCell;
use std::panic::{catch_unwind, AssertUnwindSafe};
use std::sync::atomic::{AtomicBool, AtomicUsize, Ordering};
use std::sync::Mutex;

use icy_engine::verif;

// ---------------------------------------------------------------- allocator

pub struct CountingAlloc;

static CUR: AtomicUsize = AtomicUsize::new(0);
static PEAK: AtomicUsize = AtomicUsize::new(0);
static REQUESTED: AtomicUsize = AtomicUsize::new(0);
static BIGGEST: AtomicUsize = AtomicUsize::new(0);
static TRACKING: AtomicBool = AtomicBool::new(true);
/// a single process never gets more than this from the allocator; a request
/// beyond it is refused (=> `handle_alloc_error` => abort), after a marker line
/// on stderr that the supervisor picks up.
pub static HARD_LIMIT: AtomicUsize = AtomicUsize::new(1 << 30);

unsafe impl GlobalAlloc for CountingAlloc {
    unsafe fn alloc(&self, layout: Layout) -> *mut u8 {
        let size = layout.size();
        if !note_alloc(size) {
            return std::ptr::null_mut();
        }
        System.alloc(layout)
    }
    unsafe fn alloc_zeroed(&self, layout: Layout) -> *mut u8 {
        let size = layout.size();
        if !note_alloc(size) {
            return std::ptr::null_mut();
        }
        System.alloc_zeroed(layout)
    }
    unsafe fn dealloc(&self, ptr: *mut u8, layout: Layout) {
        if TRACKING.load(Ordering::Relaxed) {
            CUR.fetch_sub(layout.size(), Ordering::Relaxed);
        }
        System.dealloc(ptr, layout)
    }
    unsafe fn realloc(&self, ptr: *mut u8, layout: Layout, new_size: usize) -> *mut u8 {
        let old = layout.size();
        if new_size > old {
            if !note_alloc(new_size - old) {
                return std::ptr::null_mut();
            }
        } else if TRACKING.load(Ordering::Relaxed) {
            CUR.fetch_sub(old - new_size, Ordering::Relaxed);
        }
        System.realloc(ptr, layout, new_size)
    }
}

#[inline]
fn note_alloc(size: usize) -> bool {
    if !TRACKING.load(Ordering::Relaxed) {
        return true;
    }
    let cur = CUR.fetch_add(size, Ordering::Relaxed).wrapping_add(size);
    if cur > HARD_LIMIT.load(Ordering::Relaxed) && size > (1 << 20) {
        CUR.fetch_sub(size, Ordering::Relaxed);
        // async-signal-safe style marker, no allocation
        let mut buf = [0u8; 64];
        let prefix = b"VERIF-ALLOC-REFUSED bytes=";
        let mut n = 0;
        for b in prefix {
            buf[n] = *b;
            n += 1;
        }
        let mut digits = [0u8; 24];
        let mut d = 0;
        let mut v = size;
        if v == 0 {
            digits[0] = b'0';
            d = 1;
        }
        while v > 0 {
            digits[d] = b'0' + (v % 10) as u8;
            v /= 10;
            d += 1;
        }
        while d > 0 {
            d -= 1;
            buf[n] = digits[d];
            n += 1;
        }
        buf[n] = b'\n';
        n += 1;
        unsafe {
            libc::write(2, buf.as_ptr() as *const libc::c_void, n);
        }
        return false;
    }
    REQUESTED.fetch_add(size, Ordering::Relaxed);
    PEAK.fetch_max(cur, Ordering::Relaxed);
    BIGGEST.fetch_max(size, Ordering::Relaxed);
    true
}

#[derive(Clone, Copy, Debug, Default)]
pub struct AllocStats {
    pub peak_over_base: usize,
    pub requested: usize,
    pub biggest: usize,
}

pub fn alloc_reset() -> usize {
    let cur = CUR.load(Ordering::Relaxed);
    PEAK.store(cur, Ordering::Relaxed);
    REQUESTED.store(0, Ordering::Relaxed);
    BIGGEST.store(0, Ordering::Relaxed);
    cur
}

pub fn alloc_stats(base: usize) -> AllocStats {
    AllocStats {
        peak_over_base: PEAK.load(Ordering::Relaxed).saturating_sub(base),
        requested: REQUESTED.load(Ordering::Relaxed),
        biggest: BIGGEST.load(Ordering::Relaxed),
    }
}

pub fn alloc_tracking(on: bool) {
    TRACKING.store(on, Ordering::Relaxed);
}

// ---------------------------------------------------------------- cpu clock

pub fn thread_cpu_ns() -> u64 {
    let mut ts = libc::timespec { tv_sec: 0, tv_nsec: 0 };
    unsafe {
        libc::clock_gettime(libc::CLOCK_THREAD_CPUTIME_ID, &mut ts);
    }
    ts.tv_sec as u64 * 1_000_000_000 + ts.tv_nsec as u64
}

pub fn process_cpu_ns() -> u64 {
    let mut ts = libc::timespec { tv_sec: 0, tv_nsec: 0 };
    unsafe {
        libc::clock_gettime(libc::CLOCK_PROCESS_CPUTIME_ID, &mut ts);
    }
    ts.tv_sec as u64 * 1_000_000_000 + ts.tv_nsec as u64
}

// ---------------------------------------------------------------- panics

#[derive(Clone, Debug)]
pub enum PanicKind {
    /// an ordinary panic of the engine (or a dependency called by it)
    Engine,
    WorkBudget { ticks: u64, budget: u64 },
    DepthBudget { site: String, depth: u32 },
    BlockBudget { ms: u64 },
    /// panic raised by harness code itself (oracle bug) – never a verdict
    Harness,
}

#[derive(Clone, Debug)]
pub struct PanicRec {
    pub kind: PanicKind,
    pub file: String,
    pub line: u32,
    pub msg: String,
    pub thread: String,
    /// first frames inside /repo/src (function names), innermost first
    pub frames: Vec<String>,
}

thread_local! {
    static LAST: RefCell<Option<PanicRec>> = const { RefCell::new(None) };
}
/// panics on threads other than the one running the case (sixel decoders)
static OTHER: Mutex<Vec<PanicRec>> = Mutex::new(Vec::new());
static SEEN_SITES: Mutex<Vec<(String, u32)>> = Mutex::new(Vec::new());

pub fn install_panic_hook() {
    std::panic::set_hook(Box::new(|info| {
        let (file, line) = match info.location() {
            Some(l) => (l.file().to_string(), l.line()),
            None => ("?".to_string(), 0),
        };
        let payload = info.payload();
        let (kind, msg) = if let Some(w) = payload.downcast_ref::<verif::WorkBudgetExceeded>() {
            (
                PanicKind::WorkBudget {
                    ticks: w.ticks,
                    budget: w.budget,
                },
                "work budget exceeded".to_string(),
            )
        } else if let Some(w) = payload.downcast_ref::<verif::DepthBudgetExceeded>() {
            (
                PanicKind::DepthBudget {
                    site: w.site.to_string(),
                    depth: w.depth,
                },
                "depth budget exceeded".to_string(),
            )
        } else if let Some(w) = payload.downcast_ref::<verif::BlockBudgetExceeded>() {
            (PanicKind::BlockBudget { ms: w.requested_ms }, "block budget exceeded".to_string())
        } else if let Some(s) = payload.downcast_ref::<&str>() {
            (PanicKind::Engine, (*s).to_string())
        } else if let Some(s) = payload.downcast_ref::<String>() {
            (PanicKind::Engine, s.clone())
        } else {
            (PanicKind::Engine, "<non-string payload>".to_string())
        };
        let kind = if matches!(kind, PanicKind::Engine) && file.contains("harness/src") {
            PanicKind::Harness
        } else {
            kind
        };
        // backtrace only the first time a site is seen (symbolisation is slow)
        let mut frames = Vec::new();
        if matches!(kind, PanicKind::Engine) {
            let first = {
                let mut seen = SEEN_SITES.lock().unwrap_or_else(|e| e.into_inner());
                let key = (file.clone(), line);
                if seen.contains(&key) {
                    false
                } else {
                    seen.push(key);
                    true
                }
            };
            if first || !file.starts_with("/repo/") {
                let bt = std::backtrace::Backtrace::force_capture().to_string();
                let lines: Vec<&str> = bt.lines().collect();
                let mut i = 0;
                while i + 1 < lines.len() {
                    let l = lines[i].trim();
                    let at = lines[i + 1].trim();
                    if at.starts_with("at /repo/src") {
                        if let Some(pos) = l.find(": ") {
                            frames.push(format!("{} ({})", &l[pos + 2..], &at[3..]));
                        }
                    }
                    i += 1;
                    if frames.len() >= 6 {
                        break;
                    }
                }
            }
        }
        let thread = std::thread::current().name().unwrap_or("<unnamed>").to_string();
        if msg.starts_with("unsafe precondition(s) violated") || msg.contains("cannot unwind") || msg.contains("panic in a destructor") {
            // the process is about to abort (e.g. a failed `unsafe` precondition check of a
            // debug-assertions build): leave the location for the supervisor
            let mut loc = (file.clone(), line);
            if !file.starts_with("/repo/") {
                let bt = std::backtrace::Backtrace::force_capture().to_string();
                for l in bt.lines() {
                    let l = l.trim();
                    if let Some(rest) = l.strip_prefix("at /repo/") {
                        let mut it = rest.split(':');
                        if let (Some(f), Some(n)) = (it.next(), it.next()) {
                            loc = (format!("/repo/{f}"), n.parse().unwrap_or(0));
                            break;
                        }
                    }
                }
            }
            eprintln!("VERIF-NOUNWIND-PANIC {}:{} {}", loc.0, loc.1, msg.chars().take(160).collect::<String>().replace('\n', " "));
        }
        let rec = PanicRec {
            kind,
            file,
            line,
            msg,
            thread: thread.clone(),
            frames,
        };
        if IN_GUARD.with(|g| *g.borrow()) {
            LAST.with(|l| *l.borrow_mut() = Some(rec));
        } else {
            if thread == "main" {
                eprintln!("VERIF-HARNESS-PANIC {}:{} {}", rec.file, rec.line, rec.msg.chars().take(200).collect::<String>());
            }
            OTHER.lock().unwrap_or_else(|e| e.into_inner()).push(rec);
        }
    }));
}

thread_local! {
    static IN_GUARD: RefCell<bool> = const { RefCell::new(false) };
}

/// the record of the panic most recently caught on this thread inside a guard (for checks that catch panics themselves)
pub fn last_panic() -> Option<PanicRec> {
    LAST.with(|l| l.borrow().clone())
}

pub fn take_other_thread_panics() -> Vec<PanicRec> {
    std::mem::take(&mut *OTHER.lock().unwrap_or_else(|e| e.into_inner()))
}

/// Result of running engine code under the monitors.
#[derive(Debug)]
pub enum Outcome<T> {
    Done(T),
    Panicked(PanicRec),
}

impl<T> Outcome<T> {
    pub fn ok(self) -> Option<T> {
        match self {
            Outcome::Done(t) => Some(t),
            Outcome::Panicked(_) => None,
        }
    }
}

#[derive(Clone, Copy, Debug)]
pub struct Budgets {
    pub work: u64,
    pub depth: u32,
    pub block_ms: i64,
}

impl Default for Budgets {
    fn default() -> Self {
        Budgets {
            work: 200_000_000,
            depth: 64,
            block_ms: -1,
        }
    }
}

#[derive(Clone, Copy, Debug, Default)]
pub struct Measure {
    pub ticks: u64,
    pub max_depth: u32,
    pub blocked_ms: u64,
    pub cpu_ns: u64,
    pub alloc: AllocStats,
}

/// Run `f` (engine code) with budgets armed; returns the outcome and what the
/// work / allocation / nesting monitors measured.
pub fn guarded<T>(b: Budgets, f: impl FnOnce() -> T) -> (Outcome<T>, Measure) {
    verif::reset_ticks();
    verif::reset_depth();
    verif::reset_blocked();
    verif::set_work_budget(b.work);
    verif::set_depth_budget(b.depth);
    verif::set_block_budget(b.block_ms);
    let base = alloc_reset();
    let cpu0 = thread_cpu_ns();
    IN_GUARD.with(|g| *g.borrow_mut() = true);
    LAST.with(|l| *l.borrow_mut() = None);
    let r = catch_unwind(AssertUnwindSafe(f));
    IN_GUARD.with(|g| *g.borrow_mut() = false);
    let cpu1 = thread_cpu_ns();
    let m = Measure {
        ticks: verif::ticks(),
        max_depth: verif::max_depth(),
        blocked_ms: verif::blocked_ms(),
        cpu_ns: cpu1 - cpu0,
        alloc: alloc_stats(base),
    };
    verif::set_work_budget(0);
    verif::set_depth_budget(0);
    verif::set_block_budget(-1);
    match r {
        Ok(t) => (Outcome::Done(t), m),
        Err(_) => {
            let rec = LAST.with(|l| l.borrow_mut().take()).unwrap_or(PanicRec {
                kind: PanicKind::Engine,
                file: "?".into(),
                line: 0,
                msg: "panic without hook record".into(),
                thread: String::new(),
                frames: vec![],
            });
            (Outcome::Panicked(rec), m)
        }
    }
}

/// digits -> N, long hex -> H, truncate
pub fn msg_template(msg: &str) -> String {
    let mut out = String::new();
    let mut in_num = false;
    for ch in msg.chars() {
        if ch.is_ascii_digit() {
            if !in_num {
                out.push('N');
                in_num = true;
            }
        } else {
            in_num = false;
            out.push(if ch == '\n' { ' ' } else { ch });
        }
        if out.len() >= 100 {
            break;
        }
    }
    out
}
