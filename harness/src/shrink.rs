//! Bounded delta debugging on byte strings / generic lists.

/// Remove chunks of `items` while `still_fails` holds; at most `budget` probes.
pub fn shrink_list<T: Clone>(items: &[T], budget: usize, mut still_fails: impl FnMut(&[T]) -> bool) -> Vec<T> {
    let mut cur: Vec<T> = items.to_vec();
    let mut probes = 0usize;
    let mut chunk = cur.len().div_ceil(2).max(1);
    while chunk >= 1 && !cur.is_empty() {
        let mut i = 0;
        let mut progressed = false;
        while i < cur.len() {
            if probes >= budget {
                return cur;
            }
            let end = (i + chunk).min(cur.len());
            let mut cand: Vec<T> = Vec::with_capacity(cur.len() - (end - i));
            cand.extend_from_slice(&cur[..i]);
            cand.extend_from_slice(&cur[end..]);
            probes += 1;
            if still_fails(&cand) {
                cur = cand;
                progressed = true;
            } else {
                i = end;
            }
        }
        if chunk == 1 {
            if !progressed {
                break;
            }
        } else {
            chunk = chunk.div_ceil(2);
            if chunk == 0 {
                break;
            }
        }
    }
    cur
}
