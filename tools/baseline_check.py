#!/usr/bin/env python3
"""Run the repository's test-suite with the verification guard OFF and compare
the set of passing tests with /root/.vp/BASELINE.json (stable_pass)."""
import json, re, subprocess, sys, os
env = dict(os.environ, CARGO_NET_OFFLINE="true")
env.pop("RUSTFLAGS", None)
p = subprocess.run(["cargo", "test", "--workspace", "--no-fail-fast", "--offline"], cwd="/repo", env=env,
                   stdout=subprocess.PIPE, stderr=subprocess.STDOUT, text=True)
passed = set()
failed = set()
for line in p.stdout.splitlines():
    m = re.match(r"^test (\S+) \.\.\. (ok|FAILED)", line)
    if m:
        (passed if m.group(2) == "ok" else failed).add("icy_engine::" + m.group(1))
base = set(json.load(open("/root/.vp/BASELINE.json"))["stable_pass"])
missing = sorted(base - passed)
print(f"passed={len(passed)} failed={len(failed)} baseline={len(base)} baseline_missing={len(missing)}")
for m in missing[:20]:
    print("  MISSING", m)
sys.exit(1 if missing else 0)
