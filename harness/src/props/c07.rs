//! C07 — the native IcyDraw format is lossless.
use std::path::Path;

use icy_engine::{Buffer, TextPane};
use serde::{Deserialize, Serialize};
use serde_json::{json, Value};

use crate::ctx::Ctx;
use crate::doc::{self, CellD, DocD, FontD, LayerD};
use crate::files::save_opts;
use crate::mon::{guarded, Budgets, Outcome};
use crate::rng::Rng;
use crate::shrink::shrink_list;
use crate::Prop;

#[derive(Clone, Debug, Serialize, Deserialize)]
pub struct Case07 {
    pub doc: DocD,
}

fn cmp_sauce(a: &Option<icy_engine::SauceData>, b: &Option<icy_engine::SauceData>) -> Option<String> {
    match (a, b) {
        (None, None) => None,
        (Some(a), Some(b)) => {
            if a.title != b.title {
                return Some("title".into());
            }
            if a.author != b.author {
                return Some("author".into());
            }
            if a.group != b.group {
                return Some("group".into());
            }
            if a.comments.len() != b.comments.len() || a.comments.iter().zip(b.comments.iter()).any(|(x, y)| x != y) {
                return Some("comments".into());
            }
            if a.use_letter_spacing != b.use_letter_spacing || a.use_aspect_ratio != b.use_aspect_ratio {
                return Some("flags".into());
            }
            None
        }
        (Some(_), None) => Some("missing-after-load".into()),
        (None, Some(_)) => Some("appears-after-load".into()),
    }
}

pub fn compare_documents(a: &Buffer, b: &Buffer) -> Option<(String, Value)> {
    if a.get_size() != b.get_size() {
        return Some(("buffer-size".into(), json!({"saved": [a.get_width(), a.get_height()], "loaded": [b.get_width(), b.get_height()]})));
    }
    if a.buffer_type != b.buffer_type {
        return Some(("buffer-type".into(), json!({"saved": format!("{:?}", a.buffer_type), "loaded": format!("{:?}", b.buffer_type)})));
    }
    if a.ice_mode != b.ice_mode {
        return Some(("ice-mode".into(), json!({"saved": format!("{:?}", a.ice_mode), "loaded": format!("{:?}", b.ice_mode)})));
    }
    if a.palette_mode != b.palette_mode {
        return Some(("palette-mode".into(), json!({"saved": format!("{:?}", a.palette_mode), "loaded": format!("{:?}", b.palette_mode)})));
    }
    if a.font_mode != b.font_mode {
        return Some(("font-mode".into(), json!({"saved": format!("{:?}", a.font_mode), "loaded": format!("{:?}", b.font_mode)})));
    }
    if a.layers.len() != b.layers.len() {
        return Some(("layer-count".into(), json!({"saved": a.layers.len(), "loaded": b.layers.len()})));
    }
    for (i, (la, lb)) in a.layers.iter().zip(b.layers.iter()).enumerate() {
        let pa = &la.properties;
        let pb = &lb.properties;
        let mut field = None;
        if pa.title != pb.title {
            field = Some(("title", json!({"saved": pa.title, "loaded": pb.title})));
        } else if la.role != lb.role {
            field = Some(("role", json!({})));
        } else if pa.mode != pb.mode {
            field = Some(("mode", json!({"saved": format!("{:?}", pa.mode), "loaded": format!("{:?}", pb.mode)})));
        } else if pa.color != pb.color {
            field = Some(("colour-tag", json!({"saved": format!("{:?}", pa.color), "loaded": format!("{:?}", pb.color)})));
        } else if pa.is_visible != pb.is_visible {
            field = Some(("visible", json!({"saved": pa.is_visible, "loaded": pb.is_visible})));
        } else if pa.is_locked != pb.is_locked {
            field = Some(("locked", json!({"saved": pa.is_locked, "loaded": pb.is_locked})));
        } else if pa.is_position_locked != pb.is_position_locked {
            field = Some(("position-locked", json!({"saved": pa.is_position_locked, "loaded": pb.is_position_locked})));
        } else if pa.has_alpha_channel != pb.has_alpha_channel {
            field = Some(("alpha", json!({"saved": pa.has_alpha_channel, "loaded": pb.has_alpha_channel})));
        } else if pa.is_alpha_channel_locked != pb.is_alpha_channel_locked {
            field = Some(("alpha-locked", json!({"saved": pa.is_alpha_channel_locked, "loaded": pb.is_alpha_channel_locked})));
        } else if la.transparency != lb.transparency {
            field = Some(("transparency", json!({"saved": la.transparency, "loaded": lb.transparency})));
        } else if la.get_base_offset() != lb.get_base_offset() {
            field = Some(("offset", json!({"saved": format!("{:?}", la.get_base_offset()), "loaded": format!("{:?}", lb.get_base_offset())})));
        } else if la.get_size() != lb.get_size() {
            field = Some(("size", json!({"saved": [la.get_width(), la.get_height()], "loaded": [lb.get_width(), lb.get_height()]})));
        } else if la.default_font_page != lb.default_font_page {
            field = Some(("default-font-page", json!({"saved": la.default_font_page, "loaded": lb.default_font_page})));
        }
        if field.is_none() && la.role == icy_engine::Role::Image {
            // an image layer is its picture: size, scales and RGBA bytes
            let (sa, sb) = (la.sixels.first(), lb.sixels.first());
            match (sa, sb) {
                (Some(x), Some(y)) => {
                    if x.get_size() != y.get_size() || x.vertical_scale != y.vertical_scale || x.horizontal_scale != y.horizontal_scale {
                        field = Some(("image-size", json!({"saved": [x.get_width(), x.get_height()], "loaded": [y.get_width(), y.get_height()]})));
                    } else if x.picture_data != y.picture_data {
                        field = Some(("image-data", json!({"saved_len": x.picture_data.len(), "loaded_len": y.picture_data.len()})));
                    }
                }
                (a, b) => {
                    if a.is_some() != b.is_some() || la.sixels.len() != lb.sixels.len() {
                        field = Some(("image-missing", json!({"saved": la.sixels.len(), "loaded": lb.sixels.len()})));
                    }
                }
            }
        }
        if let Some((f, mut d)) = field {
            d["layer"] = json!(i);
            return Some((format!("layer|{f}"), d));
        }
        for y in 0..la.get_height() {
            for x in 0..la.get_width() {
                let ca = la.get_char((x, y));
                let cb = lb.get_char((x, y));
                if ca.is_visible() != cb.is_visible() {
                    return Some(("cell|visibility".into(), json!({"layer": i, "x": x, "y": y, "saved": doc::describe_cell(&ca), "loaded": doc::describe_cell(&cb), "row_end": x + 1 == la.get_width()})));
                }
                if !ca.is_visible() {
                    continue;
                }
                let f = if ca.ch != cb.ch {
                    Some("char")
                } else if ca.attribute.get_foreground() != cb.attribute.get_foreground() {
                    Some("foreground")
                } else if ca.attribute.get_background() != cb.attribute.get_background() {
                    Some("background")
                } else if ca.attribute.attr != cb.attribute.attr {
                    Some("attribute-flags")
                } else if ca.get_font_page() != cb.get_font_page() {
                    Some("font-page")
                } else {
                    None
                };
                if let Some(f) = f {
                    let long = ca.ch as u32 > 255 || ca.attribute.get_foreground() > 255 || ca.attribute.get_background() > 255 || ca.get_font_page() > 255;
                    return Some((
                        format!("cell|{f}|{}", if long { "long-form" } else { "short-form" }),
                        json!({"layer": i, "x": x, "y": y, "saved": doc::describe_cell(&ca), "loaded": doc::describe_cell(&cb)}),
                    ));
                }
            }
        }
    }
    if a.palette.len() != b.palette.len() {
        return Some(("palette|length".into(), json!({"saved": a.palette.len(), "loaded": b.palette.len()})));
    }
    for i in 0..a.palette.len() as u32 {
        if a.palette.get_rgb(i) != b.palette.get_rgb(i) {
            return Some(("palette|colour".into(), json!({"index": i, "saved": a.palette.get_rgb(i), "loaded": b.palette.get_rgb(i)})));
        }
    }
    let mut slots_a: Vec<usize> = a.font_iter().map(|(k, _)| *k).collect();
    let mut slots_b: Vec<usize> = b.font_iter().map(|(k, _)| *k).collect();
    slots_a.sort_unstable();
    slots_b.sort_unstable();
    if slots_a != slots_b {
        return Some(("fonts|slots".into(), json!({"saved": slots_a, "loaded": slots_b})));
    }
    for s in slots_a {
        let (fa, fb) = (a.get_font(s).unwrap(), b.get_font(s).unwrap());
        let f = if fa.name != fb.name {
            Some("name")
        } else if fa.size != fb.size {
            Some("size")
        } else if fa.length != fb.length {
            Some("length")
        } else if fa.convert_to_u8_data() != fb.convert_to_u8_data() {
            Some("glyphs")
        } else {
            None
        };
        if let Some(f) = f {
            return Some((format!("fonts|{f}"), json!({"slot": s, "saved_name": fa.name, "loaded_name": fb.name})));
        }
    }
    if let Some(f) = cmp_sauce(a.get_sauce(), b.get_sauce()) {
        return Some((format!("sauce|{f}"), json!({})));
    }
    None
}

fn run(case: &Case07) -> Option<(String, Value)> {
    let src = doc::build(&case.doc);
    let bytes = match src.to_bytes("icy", &save_opts(case.doc.sauce.is_some(), true)) {
        Ok(b) => b,
        Err(e) => return Some(("icy|save-error".into(), json!({"error": e.to_string()}))),
    };
    let got = match Buffer::from_bytes(Path::new("f.icy"), false, &bytes) {
        Ok(b) => b,
        Err(e) => return Some(("icy|load-error".into(), json!({"error": e.to_string()}))),
    };
    compare_documents(&src, &got).map(|(k, d)| (format!("icy|{k}"), d))
}

pub fn gen_layer(rng: &mut Rng, idx: usize, pages: &[u16], ncol: u32, big: bool) -> LayerD {
    let (w, h) = if big {
        (rng.range(0, 200) as i32, rng.range(0, 120) as i32)
    } else {
        match rng.usize(8) {
            0 => (0, 0),
            1 => (rng.range(0, 3) as i32, rng.range(0, 3) as i32),
            _ => (rng.range(1, 40) as i32, rng.range(1, 20) as i32),
        }
    };
    let mut l = LayerD::plain(w, h);
    l.title = match rng.usize(5) {
        0 => String::new(),
        1 => format!("Layer {idx}"),
        2 => "Ünïcödé ☃ 日本 🎨".into(),
        3 => "x".repeat(300),
        _ => (0..rng.usize(12)).map(|_| char::from_u32(doc::pick_char(rng, doc::Chars::Unicode)).unwrap_or('x')).collect(),
    };
    l.ox = rng.range(-50, 50) as i32;
    l.oy = rng.range(-50, 50) as i32;
    l.visible = rng.chance(3, 4);
    l.locked = rng.chance(1, 4);
    l.pos_locked = rng.chance(1, 4);
    l.alpha = rng.bool();
    l.alpha_locked = rng.chance(1, 4);
    l.mode = rng.usize(3) as u8;
    l.transparency = if rng.bool() { 0 } else { rng.byte() };
    l.color = if rng.chance(1, 3) { Some((rng.byte(), rng.byte(), rng.byte())) } else { None };
    l.default_font_page = *rng.pick(pages);
    if idx > 0 && rng.chance(1, 8) {
        // an image layer (role Image): a sixel picture of 1..=40 x 1..=30 pixels, no cells
        let (pw, ph) = (1 + rng.usize(40) as i32, 1 + rng.usize(30) as i32);
        l.image = Some((pw, ph, rng.bytes((pw * ph * 4) as usize)));
        return l;
    }
    let density = *rng.pick(&[0u64, 20, 60, 100]);
    for y in 0..h {
        // rows ending before / at the layer width
        let len = match rng.usize(4) {
            0 => w,
            1 => 0,
            _ => rng.range(0, w as i64) as i32,
        };
        for x in 0..len {
            if !rng.chance(density, 100) {
                continue;
            }
            let long = rng.chance(1, 4);
            let ch = if long && rng.bool() { doc::pick_char(rng, doc::Chars::Unicode) } else { rng.below(256) as u32 };
            let pick_col = |rng: &mut Rng| -> u32 {
                match rng.usize(12) {
                    0 => icy_engine::TextAttribute::TRANSPARENT_COLOR,
                    1 if long => 256 + rng.below(1000) as u32,
                    _ => rng.below(ncol as u64) as u32,
                }
            };
            let fg = pick_col(rng);
            let bg = pick_col(rng);
            let attr = if rng.chance(1, 3) { (rng.next_u32() as u16) & 0x03FF } else { 0 };
            l.cells.push(CellD { x, y, ch, fg, bg, attr, fp: *rng.pick(pages) });
        }
    }
    l
}

/// a document whose first layer is 150..=200 x 90..=120 cells, nearly all of them in the long (14-byte) form, with every
/// combination of hidden / locked / alpha-locked and now and then an empty row: more than 300 KB of layer data, the
/// largest the quantifier allows (about 1 in 400 documents; each costs a second for the embedded preview)
/// a picture of megabytes on an image layer: the writer cuts layer data into chunks of at most 3,000,000 bytes
/// (16 bytes of picture header + RGBA bytes in the first one)
fn gen_huge_image_doc(rng: &mut Rng) -> DocD {
    let mut d = DocD::single(20, 6);
    d.layers.clear();
    d.fonts.push(FontD { slot: 0, name: "Font 0".into(), height: 16, builtin: Some(0), data: vec![], sauce_name: None });
    let mut base = LayerD::plain(20, 6);
    base.title = "text".into();
    for x in 0..20 {
        base.cells.push(CellD { x, y: rng.usize(6) as i32, ch: 0x41 + x as u32, fg: rng.below(16) as u32, bg: rng.below(8) as u32, attr: 0, fp: 0 });
    }
    d.layers.push(base);
    let mut l = LayerD::plain(20, 6);
    l.title = "picture".into();
    l.alpha = rng.bool();
    l.visible = rng.bool();
    // RGBA bytes + 16 = exactly one chunk; one pixel more; a little over one chunk; over two chunks
    let (pw, ph) = *rng.pick(&[(4, 187_499), (4, 187_500), (2, 374_999), (1000, 760), (866, 866), (1300, 1200), (1500, 1000)]);
    l.image = Some((pw, ph, rng.bytes(8)));
    l.ox = rng.range(-3, 3) as i32;
    l.oy = rng.range(-3, 3) as i32;
    d.layers.push(l);
    d
}

fn gen_huge_doc(rng: &mut Rng) -> DocD {
    if rng.chance(1, 3) {
        return gen_huge_image_doc(rng);
    }
    // (a text layer inside the property's domain - 200 x 120 cells - stays below the writer's limit of 3,000,000 bytes per
    // chunk; a 400 x 490 layer tried here for a while found a defect beyond the domain, see DESIGN 7a)
    let (w, h) = (rng.range(150, 200) as i32, rng.range(90, 120) as i32);
    let mut d = DocD::single(w, h);
    d.layers.clear();
    d.fonts.push(FontD { slot: 0, name: "Font 0".into(), height: 16, builtin: Some(0), data: vec![], sauce_name: None });
    let mut l = LayerD::plain(w, h);
    l.title = "huge".into();
    l.visible = rng.bool();
    l.locked = rng.bool();
    l.alpha = rng.bool();
    l.alpha_locked = rng.bool();
    let empty_row = if rng.bool() { Some(rng.range(80, (h - 1) as i64) as i32) } else { None };
    for y in 0..h {
        if Some(y) == empty_row {
            continue;
        }
        for x in 0..w {
            if rng.chance(1, 40) {
                continue;
            }
            l.cells.push(CellD { x, y, ch: 0x100 + ((x * 7 + y * 13) % 0x2000) as u32, fg: rng.below(16) as u32, bg: rng.below(16) as u32, attr: 0, fp: 0 });
        }
    }
    d.layers.push(l);
    d
}

pub fn gen_doc(rng: &mut Rng) -> DocD {
    if rng.chance(1, 400) {
        return gen_huge_doc(rng);
    }
    let big = rng.chance(1, 25);
    let w = if big { rng.range(0, 200) as i32 } else { rng.range(0, 40) as i32 };
    let h = if big { rng.range(0, 120) as i32 } else { rng.range(0, 20) as i32 };
    let mut d = DocD::single(w, h);
    d.layers.clear();
    d.buffer_type = rng.usize(5) as u8;
    d.ice = rng.usize(3) as u8;
    d.palette_mode = rng.usize(4) as u8;
    d.font_mode = rng.usize(4) as u8;
    let ncol = match rng.usize(5) {
        0 => 1,
        1 => 16,
        2 => 300,
        _ => 1 + rng.usize(300),
    };
    if rng.chance(3, 4) {
        d.palette = Some((0..ncol).map(|_| (rng.byte(), rng.byte(), rng.byte())).collect());
    }
    if rng.chance(1, 5) {
        // palettes related to the stock DOS palette (the writer leaves the palette out when it "is the default"):
        // a prefix of it, exactly it, it plus more colours, it with one colour changed
        let dos: Vec<(u8, u8, u8)> = icy_engine::DOS_DEFAULT_PALETTE.iter().map(|c| c.get_rgb()).collect();
        let mut p = dos.clone();
        match rng.usize(4) {
            0 => p.truncate(1 + rng.usize(15)),
            1 => {}
            2 => p.extend((0..1 + rng.usize(20)).map(|_| (rng.byte(), rng.byte(), rng.byte()))),
            _ => {
                let i = rng.usize(16);
                p[i] = (p[i].0 ^ 0x10, p[i].1, p[i].2);
            }
        }
        d.palette = Some(p);
    }
    let ncol = d.palette.as_ref().map(|p| p.len()).unwrap_or(16) as u32;
    // font table: slot 0 always (the preview is rendered with it), plus a few others
    let mut pages: Vec<u16> = vec![0];
    // slot 0 is usually CP437 8x16 but also an 8x8 / 8x14 / 8x19 / 8x32 font: the preview cell size follows it, and
    // the other slots then hold taller and shorter fonts than the preview cell
    if rng.chance(1, 2) {
        // one time in four a renamed copy of the stock font: same glyphs as the font a fresh buffer starts with, other name
        let name = if (w + h) % 4 == 0 { "renamed stock font" } else { "Font 0" }; // no draw: the stream of the older classes stays as it was
        d.fonts.push(FontD { slot: 0, name: name.into(), height: 16, builtin: Some(0), data: vec![], sauce_name: None });
    } else if rng.chance(1, 3) {
        // built-in pages with long names (more than the 22 characters of the SAUCE font field) in slot 0
        d.fonts.push(FontD { slot: 0, name: "builtin 0".into(), height: 16, builtin: Some(1 + rng.usize(42)), data: vec![], sauce_name: None });
    } else {
        let h = *rng.pick(&[8u8, 14, 16, 19, 32]);
        // now and then under the name of the stock font (a font is what its glyphs are, not what it is called)
        let name = if rng.chance(1, 4) { icy_engine::BitFont::default().name.clone() } else { format!("Font 0 x{h}") };
        d.fonts.push(FontD { slot: 0, name, height: h, builtin: None, data: rng.bytes(256 * h as usize), sauce_name: None });
    }
    for _ in 0..rng.usize(3) {
        let slot = *rng.pick(&[1usize, 2, 5, 42, 100, 255, 256, 300]);
        if pages.contains(&(slot as u16)) {
            continue;
        }
        pages.push(slot as u16);
        if rng.bool() {
            d.fonts.push(FontD { slot, name: format!("builtin {slot}"), height: 16, builtin: Some(1 + rng.usize(42)), data: vec![], sauce_name: None });
        } else {
            let h = *rng.pick(&[8u8, 14, 16, 16, 19, 32]);
            // one in four with 512 glyphs (the PSF2 encoding of the FONT_n chunk carries a glyph count)
            let glyphs = if rng.chance(1, 4) { 512 } else { 256 };
            d.fonts.push(FontD { slot, name: "Cüstom ✓".into(), height: h, builtin: None, data: rng.bytes(glyphs * h as usize), sauce_name: None });
        }
    }
    for i in 0..(1 + rng.usize(6)) {
        d.layers.push(gen_layer(rng, i, &pages, ncol, big && i == 0));
    }
    if rng.bool() {
        d.sauce = Some(doc::random_sauce(rng));
    }
    d
}

#[derive(Default)]
pub struct C07 {}

impl C07 {
    fn exec(&mut self, ctx: &mut Ctx, case: &Case07) {
        let c = case.clone();
        let (out, _m) = guarded(Budgets { work: 2_000_000_000, ..Budgets::default() }, move || run(&c));
        let d = &case.doc;
        ctx.count("documents", 1);
        ctx.count("layers", d.layers.len() as u64);
        if d.layers.iter().any(|l| l.image.as_ref().map(|i| i.2.len() == 8 && i.0 * i.1 > 2).unwrap_or(false)) {
            ctx.count("documents_with_a_picture_of_megabytes", 1);
        }
        ctx.count("cells", d.layers.iter().map(|l| l.cells.len() as u64).sum());
        ctx.fp(crate::rng::mix(
            (d.w as u64) << 48 | (d.h as u64) << 40 | (d.layers.len() as u64) << 32 | (d.fonts.len() as u64) << 24 | d.palette.as_ref().map(|p| p.len() as u64).unwrap_or(0),
            crate::rng::hash_str(&format!("{:?}", d.layers.iter().map(|l| (l.w, l.h, l.ox, l.visible, l.locked, l.alpha, l.mode, l.cells.len())).collect::<Vec<_>>())),
        ));
        match out {
            Outcome::Done(res) => {
                if ctx.want_sample() && ctx.evaluations % 97 == 3 {
                    ctx.sample(json!({"size": [d.w, d.h], "layers": d.layers.iter().map(|l| json!({"size": [l.w, l.h], "offset": [l.ox, l.oy], "visible": l.visible, "locked": l.locked, "alpha": l.alpha, "mode": l.mode, "cells": l.cells.len()})).collect::<Vec<_>>(),
                        "palette": d.palette.as_ref().map(|p| p.len()), "fonts": d.fonts.iter().map(|f| f.slot).collect::<Vec<_>>(), "sauce": d.sauce.is_some()}));
                }
                if let Some((key, detail)) = res {
                    let mut used = case.clone();
                    if !ctx.replay && ctx.seen(&key) == 0 {
                        // fewer layers, then fewer cells
                        let layers = shrink_list(&used.doc.layers.clone(), 30, |cand| {
                            if cand.is_empty() {
                                return false;
                            }
                            let mut c2 = used.clone();
                            c2.doc.layers = cand.to_vec();
                            run(&c2).map(|(k, _)| k == key).unwrap_or(false)
                        });
                        used.doc.layers = layers;
                        for li in 0..used.doc.layers.len() {
                            let cells = shrink_list(&used.doc.layers[li].cells.clone(), 120, |cand| {
                                let mut c2 = used.clone();
                                c2.doc.layers[li].cells = cand.to_vec();
                                run(&c2).map(|(k, _)| k == key).unwrap_or(false)
                            });
                            used.doc.layers[li].cells = cells;
                        }
                    }
                    let detail = run(&used).map(|(_, d)| d).unwrap_or(detail);
                    ctx.violation(&format!("mismatch|{key}"), detail, serde_json::to_value(&used).unwrap());
                }
            }
            Outcome::Panicked(p) => match p.kind {
                crate::mon::PanicKind::Engine => ctx.panic_violation("icy-roundtrip", &p, serde_json::to_value(case).unwrap()),
                _ => ctx.count("resource_events", 1),
            },
        }
    }
}

impl Prop for C07 {
    fn id(&self) -> &'static str {
        "C07"
    }
    fn rule(&self) -> &'static str {
        "documents with 1..=6 layers (about one in 400 documents is a single 150..=200 x 90..=120 layer of long-form cells - over 300 KB of layer data - hidden / locked / alpha-locked in every combination - or, one time in three, a text layer under an image layer whose picture is 3 MB to 7.2 MB of RGBA bytes: exactly one writer chunk of 3,000,000 bytes, one pixel more, and over two chunks; one in eight above the first an image layer: role Image with a sixel picture of up to 40x30 pixels; sizes 0..=200 x 0..=120, mostly <= 40x20 because every save PNG-encodes a preview; offsets -50..=50; all combinations of visible / locked / position-locked / alpha / alpha-locked; modes normal/chars/attributes; colour tags; transparency; Unicode and 300-character titles; rows ending before and at the layer width; short-form and long-form cells incl. characters > 0xFFFF, colours > 255 and the transparent colour; attribute flags), palettes of 1..=300 colours (also prefixes, the whole, extensions and one-colour variations of the stock DOS palette), font slots from {0,1,2,5,42,100,255,256,300} with built-in pages 0..=42 (also in slot 0: names longer than the SAUCE font field, and renamed copies of the stock font) and custom fonts of height 8/14/16/19/32 with 256 or 512 glyphs (also in slot 0, whose size the preview uses, and also under the stock font's name), every referenced page present, with and without SAUCE, are saved with Buffer::to_bytes(\"icy\", lossles_output) and loaded with Buffer::from_bytes; a field-by-field comparator checks buffer size and modes, every layer property incl. the role (image layers: picture size, scales and RGBA bytes), every cell inside the layer size (invisible cells as invisible only), the palette, every font slot (name, size, length, glyph bytes) and the SAUCE fields. distinct_nontrivial = distinct (size, layer shapes and flags, fonts, palette length) documents"
    }
    fn meta(&self, ctx: &Ctx) -> Value {
        json!({"floor_evaluations": 500, "floor_distinct": ctx.tier.pick(500u64, 10000u64),
               "assumptions": ["font slot 0 is always present (the embedded preview is rendered with it)"]})
    }
    fn total(&mut self, ctx: &Ctx) -> u64 {
        ctx.tier.pick(10_000, 60_000)
    }
    fn run_case(&mut self, ctx: &mut Ctx, k: u64) {
        let mut rng = ctx.rng(k);
        let case = Case07 { doc: gen_doc(&mut rng) };
        ctx.begin(k);
        self.exec(ctx, &case);
    }
    fn replay(&mut self, ctx: &mut Ctx, case: &Value) {
        let c: Case07 = serde_json::from_value(case.clone()).expect("c07 case");
        ctx.begin(0);
        self.exec(ctx, &c);
    }
}
