//! C08 — undo restores the document and redo the edit, for every edit history.
//!
//! History + snapshot model: after every operation that reports success the harness
//! records (undo stack length, document snapshot); it then walks undo / redo and at
//! every stack length that coincides with an operation boundary demands the snapshot
//! recorded at that boundary.
use icy_engine::editor::{EditState, UndoState};
use icy_engine::{AttributedChar, IceMode, PaletteMode, Position, Rectangle, TextPane};
use serde::{Deserialize, Serialize};
use serde_json::{json, Value};

use crate::ctx::Ctx;
use crate::doc::{self, CellD, DocD, LayerD};
use crate::mon::{guarded, Budgets, Outcome, PanicKind};
use crate::rng::Rng;
use crate::shrink::shrink_list;
use crate::Prop;

#[derive(Clone, Debug, Serialize, Deserialize, PartialEq)]
pub enum EOp {
    // context (no undo entry expected)
    SetCurrentLayer(usize),
    SetCaret(i32, i32),
    // edits
    SetChar(i32, i32, u32, u32, u32),
    SwapChar(i32, i32, i32, i32),
    AddLayer(usize),
    RemoveLayer(usize),
    RaiseLayer(usize),
    LowerLayer(usize),
    DuplicateLayer(usize),
    ClearLayer(usize),
    MergeDown(usize),
    ToggleVisibility(usize),
    MoveLayer(i32, i32),
    SetLayerSize(usize, i32, i32),
    ResizeBuffer(bool, i32, i32),
    Crop,
    CropRect(i32, i32, i32, i32),
    SetSelection(i32, i32, i32, i32),
    ClearSelection,
    Deselect,
    AddSelectionToMask,
    InverseSelection,
    EraseSelection,
    FlipX,
    FlipY,
    JustifyLeft,
    JustifyRight,
    Center,
    InsertRow,
    DeleteRow,
    InsertColumn,
    DeleteColumn,
    EraseRow,
    EraseRowToStart,
    EraseRowToEnd,
    EraseColumn,
    EraseColumnToStart,
    EraseColumnToEnd,
    CenterLine,
    JustifyLineLeft,
    JustifyLineRight,
    ScrollUp,
    ScrollDown,
    ScrollLeft,
    ScrollRight,
    Rotate,
    MakeTransparent,
    StampDown,
    Paste(i32, i32, i32, i32),
    Anchor,
    SetIceMode(u8),
    SetPaletteMode(u8),
    SetAnsiFont(usize),
    AddAnsiFont(usize),
    SwitchFontPage(usize),
    // font table, palette, SAUCE and layer-property edits (second part of "font changes", "palette", "properties")
    SetSauceFont(usize),
    AddFont(u8),
    SetFont(u8),
    ReplaceFontUsage(usize, usize),
    ChangeFontSlot(usize, usize),
    RemoveFont(usize),
    SwitchToPalette(u8),
    UpdateSauce(u8),
    UpdateLayerProps(usize, u8),
    AddFloatingLayer,
    PasteSixel(i32, i32),
    UndoCaretPosition,
    /// mirror mode makes set_char write a second, mirrored cell (context, no undo entry of its own)
    SetMirrorMode(bool),
    /// enumerate_selections with one of three predicates (select non-blank cells / deselect everything / toggle)
    EnumerateSelections(u8),
    /// TheDrawFont::render of one glyph of the shipped TDF font at the caret (font index, character code)
    RenderTdfGlyph(u8, u8),
}

impl EOp {
    fn kind(&self) -> String {
        let s = format!("{self:?}");
        s.split('(').next().unwrap_or("").to_string()
    }
}

fn apply(st: &mut EditState, op: &EOp) -> Result<(), String> {
    let e = |r: icy_engine::EngineResult<()>| r.map_err(|e| e.to_string());
    match op {
        EOp::SetCurrentLayer(i) => {
            st.set_current_layer(*i);
            Ok(())
        }
        EOp::SetCaret(x, y) => {
            st.get_caret_mut().set_position(Position::new(*x, *y));
            Ok(())
        }
        EOp::SetChar(x, y, ch, fg, bg) => e(st.set_char((*x, *y), AttributedChar::new(char::from_u32(*ch).unwrap_or('?'), doc::make_attr(*fg, *bg, 0, 0)))),
        EOp::SwapChar(a, b, c, d) => e(st.swap_char((*a, *b), (*c, *d))),
        EOp::AddLayer(i) => e(st.add_new_layer(*i)),
        EOp::RemoveLayer(i) => e(st.remove_layer(*i)),
        EOp::RaiseLayer(i) => e(st.raise_layer(*i)),
        EOp::LowerLayer(i) => e(st.lower_layer(*i)),
        EOp::DuplicateLayer(i) => e(st.duplicate_layer(*i)),
        EOp::ClearLayer(i) => e(st.clear_layer(*i)),
        EOp::MergeDown(i) => e(st.merge_layer_down(*i)),
        EOp::ToggleVisibility(i) => e(st.toggle_layer_visibility(*i)),
        EOp::MoveLayer(x, y) => e(st.move_layer(Position::new(*x, *y))),
        EOp::SetLayerSize(i, w, h) => e(st.set_layer_size(*i, (*w, *h))),
        EOp::ResizeBuffer(l, w, h) => e(st.resize_buffer(*l, (*w, *h))),
        EOp::Crop => e(st.crop()),
        EOp::CropRect(x, y, w, h) => e(st.crop_rect(Rectangle::from_min_size((*x, *y), (*w, *h)))),
        EOp::SetSelection(x, y, w, h) => e(st.set_selection(Rectangle::from_min_size((*x, *y), (*w, *h)))),
        EOp::ClearSelection => e(st.clear_selection()),
        EOp::Deselect => e(st.deselect()),
        EOp::AddSelectionToMask => e(st.add_selection_to_mask()),
        EOp::InverseSelection => e(st.inverse_selection()),
        EOp::EraseSelection => e(st.erase_selection()),
        EOp::FlipX => e(st.flip_x()),
        EOp::FlipY => e(st.flip_y()),
        EOp::JustifyLeft => e(st.justify_left()),
        EOp::JustifyRight => e(st.justify_right()),
        EOp::Center => e(st.center()),
        EOp::InsertRow => e(st.insert_row()),
        EOp::DeleteRow => e(st.delete_row()),
        EOp::InsertColumn => e(st.insert_column()),
        EOp::DeleteColumn => e(st.delete_column()),
        EOp::EraseRow => e(st.erase_row()),
        EOp::EraseRowToStart => e(st.erase_row_to_start()),
        EOp::EraseRowToEnd => e(st.erase_row_to_end()),
        EOp::EraseColumn => e(st.erase_column()),
        EOp::EraseColumnToStart => e(st.erase_column_to_start()),
        EOp::EraseColumnToEnd => e(st.erase_column_to_end()),
        EOp::CenterLine => e(st.center_line()),
        EOp::JustifyLineLeft => e(st.justify_line_left()),
        EOp::JustifyLineRight => e(st.justify_line_right()),
        EOp::ScrollUp => e(st.scroll_area_up()),
        EOp::ScrollDown => e(st.scroll_area_down()),
        EOp::ScrollLeft => e(st.scroll_area_left()),
        EOp::ScrollRight => e(st.scroll_area_right()),
        EOp::Rotate => e(st.rotate_layer()),
        EOp::MakeTransparent => e(st.make_layer_transparent()),
        EOp::StampDown => e(st.stamp_layer_down()),
        EOp::Paste(x, y, w, h) => {
            let mut data = vec![0u8];
            data.extend(x.to_le_bytes());
            data.extend(y.to_le_bytes());
            data.extend((*w as u32).to_le_bytes());
            data.extend((*h as u32).to_le_bytes());
            for i in 0..(*w * *h) {
                data.extend((b'a' as u16 + (i % 26) as u16).to_le_bytes());
                data.extend(0u16.to_le_bytes());
                data.extend(0u16.to_le_bytes());
                data.extend(((i % 8) as u32).to_le_bytes());
                data.extend((((i + 3) % 16) as u32).to_le_bytes());
            }
            e(st.paste_clipboard_data(&data))
        }
        EOp::Anchor => e(st.anchor_layer()),
        EOp::SetIceMode(m) => e(st.set_ice_mode(IceMode::from_byte(*m))),
        EOp::SetPaletteMode(m) => e(st.set_palette_mode(PaletteMode::from_byte(*m))),
        EOp::SetAnsiFont(p) => e(st.set_ansi_font(*p)),
        EOp::AddAnsiFont(p) => e(st.add_ansi_font(*p)),
        EOp::SwitchFontPage(p) => e(st.switch_to_font_page(*p)),
        EOp::SetSauceFont(i) => {
            let names = icy_engine::SAUCE_FONT_NAMES;
            e(st.set_sauce_font(names[*i % names.len()]))
        }
        EOp::AddFont(v) => e(st.add_font(custom_font(*v))),
        EOp::SetFont(v) => e(st.set_font(custom_font(*v))),
        EOp::ReplaceFontUsage(a, b) => e(st.replace_font_usage(*a, *b)),
        EOp::ChangeFontSlot(a, b) => e(st.change_font_slot(*a, *b)),
        EOp::RemoveFont(a) => e(st.remove_font(*a)),
        EOp::SwitchToPalette(v) => e(st.switch_to_palette(custom_palette(*v))),
        EOp::UpdateSauce(v) => {
            let size = st.get_buffer().get_size();
            e(st.update_sauce_data(custom_sauce(*v, size)))
        }
        EOp::UpdateLayerProps(i, v) => {
            // update_layer_properties indexes the layer table directly; an index past the end is not an
            // editing operation on the document (nothing to edit), so it is reported as an error here
            let Some(l) = st.get_buffer().layers.get(*i) else { return Err("no such layer".into()) };
            let mut p = l.properties.clone();
            p.title = format!("{}{}", p.title, v);
            p.is_visible = v & 1 == 0;
            p.is_locked = v & 2 != 0;
            p.is_position_locked = v & 4 != 0;
            p.has_alpha_channel = v & 8 != 0;
            p.is_alpha_channel_locked = v & 16 != 0;
            p.mode = match (v >> 5) & 3 {
                1 => icy_engine::Mode::Chars,
                2 => icy_engine::Mode::Attributes,
                _ => icy_engine::Mode::Normal,
            };
            p.color = if v & 128 != 0 { Some(icy_engine::Color::new(*v, 7, 99)) } else { None };
            e(st.update_layer_properties(*i, p))
        }
        EOp::AddFloatingLayer => e(st.add_floating_layer()),
        EOp::PasteSixel(w, h) => {
            let data: Vec<u8> = (0..(*w * *h * 4)).map(|i| (i * 7) as u8).collect();
            e(st.paste_sixel(icy_engine::Sixel::from_data((*w, *h), 1, 1, data)))
        }
        EOp::UndoCaretPosition => e(st.undo_caret_position()),
        EOp::SetMirrorMode(on) => {
            st.set_mirror_mode(*on);
            Ok(())
        }
        EOp::RenderTdfGlyph(fi, code) => {
            static FONTS: std::sync::OnceLock<Vec<icy_engine::TheDrawFont>> = std::sync::OnceLock::new();
            let fonts = FONTS.get_or_init(|| icy_engine::TheDrawFont::from_tdf_bytes(crate::files::TDF_FONT).unwrap_or_default());
            if fonts.is_empty() {
                return Err("no TDF font".into());
            }
            match fonts[*fi as usize % fonts.len()].render(st, *code) {
                Some(_) => Ok(()),
                None => Err("no such glyph".into()),
            }
        }
        EOp::EnumerateSelections(m) => {
            match m % 3 {
                0 => st.enumerate_selections(|_, ch, _| Some(ch.is_visible() && ch.ch != ' ' && ch.ch != '\0')),
                1 => st.enumerate_selections(|_, _, _| Some(false)),
                _ => st.enumerate_selections(|pos, _, sel| if (pos.x + pos.y) % 2 == 0 { Some(!sel) } else { None }),
            }
            Ok(())
        }
    }
}

/// custom bitmap fonts for set_font / add_font: heights 8, 14, 16, 19; glyph bytes depend on the variant
fn custom_font(v: u8) -> icy_engine::BitFont {
    let height = [16u8, 8, 14, 19][(v % 4) as usize];
    doc::make_font(&doc::FontD {
        slot: 0,
        name: format!("custom{v}"),
        height,
        builtin: None,
        data: (0..256usize * height as usize).map(|i| (i as u8).wrapping_mul(v | 1).wrapping_add(v)).collect(),
        sauce_name: None,
    })
}

fn custom_palette(v: u8) -> icy_engine::Palette {
    let n = [16usize, 16, 40, 8, 256, 1][(v % 6) as usize];
    if v % 6 == 0 {
        return icy_engine::Palette::dos_default();
    }
    let mut pal = icy_engine::Palette::new();
    pal.clear();
    for i in 0..n {
        pal.push(icy_engine::Color::new((i as u8).wrapping_mul(v), 255 - i as u8, v ^ i as u8));
    }
    pal
}

/// the record's buffer size is the document's own size: the engine keeps that field in step with the buffer size
/// (Buffer::set_size), a record that disagrees with the buffer is not a state an edit produces
fn custom_sauce(v: u8, size: icy_engine::Size) -> Option<icy_engine::SauceData> {
    if v % 4 == 0 {
        return None;
    }
    Some(doc::make_sauce(
        &doc::SauceD {
            title: format!("title {v}").into_bytes(),
            author: if v % 2 == 0 { b"author".to_vec() } else { vec![] },
            group: format!("g{v}").into_bytes(),
            comments: (0..(v % 5)).map(|i| format!("comment {i} of {v}").into_bytes()).collect(),
            ice: v & 8 != 0,
            letter_spacing: v & 16 != 0,
            aspect_ratio: v & 32 != 0,
            font: if v & 64 != 0 { Some("IBM VGA50".into()) } else { None },
            file_type: 0,
        },
        size,
    ))
}

// ---------------------------------------------------------------- snapshots

#[derive(Clone, Debug, PartialEq)]
struct LayerSnap {
    title: String,
    role: String,
    props: String,
    size: (i32, i32),
    offset: (i32, i32),
    default_font_page: usize,
    /// the cells of the layer as TextPane::get_char shows them, row by row over the layer's size
    lines: Vec<Vec<(u32, u32, u32, u16, usize)>>,
}

#[derive(Clone, Debug, PartialEq)]
struct Snap {
    size: (i32, i32),
    modes: String,
    palette: Vec<(u8, u8, u8)>,
    fonts: Vec<(usize, String, (i32, i32), u32)>,
    sauce: Option<String>,
    layers: Vec<LayerSnap>,
}

fn snap(st: &EditState) -> Snap {
    let b = st.get_buffer();
    // fonts are identified by name, size and a hash of their glyph bytes (the checksum field is only filled lazily)
    let mut fonts: Vec<(usize, String, (i32, i32), u32)> =
        b.font_iter().map(|(k, f)| (*k, f.name.clone(), (f.size.width, f.size.height), crate::rng::hash_bytes(&f.convert_to_u8_data()) as u32)).collect();
    fonts.sort();
    Snap {
        size: (b.get_width(), b.get_height()),
        modes: format!("{:?}/{:?}/{:?}/{:?}", b.buffer_type, b.ice_mode, b.palette_mode, b.font_mode),
        palette: (0..b.palette.len() as u32).map(|i| b.palette.get_rgb(i)).collect(),
        fonts,
        sauce: b.get_sauce().as_ref().map(|s| {
            format!(
                "{:?}|{:?}|{:?}|{:?}|{:?}|{:?}|{:?}|ice={} ls={} ar={}|{:?}",
                s.title, s.author, s.group, s.comments, s.data_type, s.buffer_size, s.font_opt, s.use_ice, s.use_letter_spacing, s.use_aspect_ratio, s.sauce_file_type
            )
        }),
        layers: b
            .layers
            .iter()
            .map(|l| {
                let cell = |c: AttributedChar| if c.is_visible() { (c.ch as u32, c.attribute.get_foreground(), c.attribute.get_background(), c.attribute.attr, c.get_font_page()) } else { (0, 0, 0, 0x8000, 0) };
                let lines: Vec<Vec<(u32, u32, u32, u16, usize)>> = (0..l.get_height()).map(|y| (0..l.get_width()).map(|x| cell(l.get_char((x, y)))).collect()).collect();
                LayerSnap {
                    title: l.properties.title.clone(),
                    role: format!("{:?}", l.role),
                    props: format!(
                        "vis={} lock={} poslock={} alpha={} alphalock={} mode={:?} color={:?} transp={}",
                        l.properties.is_visible,
                        l.properties.is_locked,
                        l.properties.is_position_locked,
                        l.properties.has_alpha_channel,
                        l.properties.is_alpha_channel_locked,
                        l.properties.mode,
                        l.properties.color,
                        l.transparency
                    ),
                    size: (l.get_width(), l.get_height()),
                    offset: (l.get_base_offset().x, l.get_base_offset().y),
                    default_font_page: l.default_font_page,
                    lines,
                }
            })
            .collect(),
    }
}

fn first_diff(a: &Snap, b: &Snap) -> (String, String) {
    if a.size != b.size {
        return ("buffer-size".into(), format!("{:?} vs {:?}", a.size, b.size));
    }
    if a.modes != b.modes {
        return ("modes".into(), format!("{} vs {}", a.modes, b.modes));
    }
    if a.palette != b.palette {
        return ("palette".into(), format!("{} vs {} colours", a.palette.len(), b.palette.len()));
    }
    if a.fonts != b.fonts {
        return ("fonts".into(), format!("{:?} vs {:?}", a.fonts.iter().map(|f| f.0).collect::<Vec<_>>(), b.fonts.iter().map(|f| f.0).collect::<Vec<_>>()));
    }
    if a.sauce != b.sauce {
        return ("sauce".into(), String::new());
    }
    if a.layers.len() != b.layers.len() {
        return ("layer-count".into(), format!("{} vs {}", a.layers.len(), b.layers.len()));
    }
    for (i, (x, y)) in a.layers.iter().zip(b.layers.iter()).enumerate() {
        if x.title != y.title || x.role != y.role {
            return ("layer-order-or-identity".into(), format!("layer {i}: {:?}/{} vs {:?}/{}", x.title, x.role, y.title, y.role));
        }
        if x.props != y.props {
            return ("layer-properties".into(), format!("layer {i}: {} vs {}", x.props, y.props));
        }
        if x.size != y.size {
            return ("layer-size".into(), format!("layer {i}: {:?} vs {:?}", x.size, y.size));
        }
        if x.offset != y.offset {
            return ("layer-offset".into(), format!("layer {i}: {:?} vs {:?}", x.offset, y.offset));
        }
        if x.default_font_page != y.default_font_page {
            return ("layer-default-font-page".into(), format!("layer {i}"));
        }
        if x.lines != y.lines {
            let rows = x.lines.len().max(y.lines.len());
            for r in 0..rows {
                let (la, lb) = (x.lines.get(r), y.lines.get(r));
                if la != lb {
                    return (
                        "layer-cells".into(),
                        format!("layer {i} row {r}: expected {:?} got {:?}", la.map(|l| l.iter().take(14).collect::<Vec<_>>()), lb.map(|l| l.iter().take(14).collect::<Vec<_>>())),
                    );
                }
            }
        }
    }
    ("none".into(), String::new())
}

// ---------------------------------------------------------------- history execution

/// description of a panic caught during undo / redo; budget panics of the monitors are not the engine's and travel on
fn panic_text(payload: Box<dyn std::any::Any + Send>) -> String {
    match crate::mon::last_panic() {
        Some(p) if matches!(p.kind, PanicKind::Engine) => format!("{}:{} {}", p.file, p.line, p.msg),
        Some(_) | None => std::panic::resume_unwind(payload),
    }
}

#[derive(Clone, Debug, Serialize, Deserialize)]
pub struct Case08 {
    pub doc: DocD,
    pub ops: Vec<EOp>,
    /// seed of the undo/redo random walk
    pub walk: u64,
}

#[derive(Debug)]
enum Verdict {
    /// op_panic: an operation panicked (it did not report success, so the history ended before it)
    Ok { executed: usize, pushed: usize, changed: bool, op_panic: Option<(String, String)> },
    Bad(String, Value),
}

fn run(case: &Case08) -> Verdict {
    let mut st = EditState::from_buffer(doc::build(&case.doc));
    let l0 = st.undo_stack_len();
    let s0 = snap(&st);
    // (stack length, snapshot, op index)
    let mut marks: Vec<(usize, Snap, usize)> = vec![(l0, s0.clone(), 0)];
    let mut executed = 0;
    for (i, op) in case.ops.iter().enumerate() {
        let r = std::panic::catch_unwind(std::panic::AssertUnwindSafe(|| apply(&mut st, op)));
        match r {
            Err(e) => {
                // an operation that panics did not report success: the history ends before it (C08 says nothing about it)
                let what = panic_text(e);
                if !case.ops[..i].is_empty() {
                    let mut c2 = case.clone();
                    c2.ops.truncate(i);
                    return match run(&c2) {
                        Verdict::Ok { executed, pushed, changed, .. } => Verdict::Ok { executed, pushed, changed, op_panic: Some((op.kind(), what)) },
                        v => v,
                    };
                }
                return Verdict::Ok { executed: 0, pushed: 0, changed: false, op_panic: Some((op.kind(), what)) };
            }
            Ok(Err(_)) => {
                // the history ends before this operation; an operation that fails must not leave a half-done edit behind
                break;
            }
            Ok(Ok(())) => {
                executed = i + 1;
                let l = st.undo_stack_len();
                // marks above the new length are no longer reachable
                while marks.last().map(|m| m.0 > l).unwrap_or(false) {
                    marks.pop();
                }
                marks.push((l, snap(&st), i + 1));
            }
        }
    }
    // an Err may have modified the document: re-run the successful prefix on a fresh state to have clean marks
    if executed < case.ops.len() {
        let mut c2 = case.clone();
        c2.ops.truncate(executed);
        if executed == 0 {
            return Verdict::Ok { executed: 0, pushed: 0, changed: false, op_panic: None };
        }
        return run(&c2);
    }
    let final_len = st.undo_stack_len();
    let s_final = snap(&st);
    let expect_at = |len: usize| -> Option<&(usize, Snap, usize)> { marks.iter().rev().find(|m| m.0 == len) };
    let kinds: Vec<String> = case.ops.iter().map(|o| o.kind()).collect();
    let bad = |phase: &str, field: &str, detail: String, at_len: usize| -> Verdict {
        // the redo-discard check does not depend on which operations built the history: its key names the new edit only
        let hist = if phase == "new-edit-after-undo" { "*".to_string() } else { kinds.join(">") };
        Verdict::Bad(
            format!("{phase}|{hist}|{field}"),
            json!({"phase": phase, "field": field, "difference": detail, "undo_stack_len": at_len, "ops": kinds}),
        )
    };
    // two complete rounds: a record that only works the first time it is undone / redone (state moved out of the
    // record, swapped instead of copied) shows up in the second round ("...-again" phases)
    for round in 0..2 {
        let ph = |p: &str| -> String { if round == 0 { p.to_string() } else { format!("{p}-again") } };
        // ---- undo everything the history pushed
        while st.undo_stack_len() > l0 {
            let before = st.undo_stack_len();
            if std::env::var_os("VERIF_C08_TRACE").is_some() {
                eprintln!("undo at len {before} can_redo={} layers={:?}", st.can_redo(), st.get_buffer().layers.iter().map(|l| (l.get_width(), l.get_height(), l.lines.len())).collect::<Vec<_>>());
            }
            let r = std::panic::catch_unwind(std::panic::AssertUnwindSafe(|| st.undo()));
            match r {
                Err(e) => return bad(&ph("undo-panics"), "panic", panic_text(e), before),
                Ok(Err(e)) => return bad(&ph("undo-err"), "error", e.to_string(), before),
                Ok(Ok(())) => {}
            }
            let len = st.undo_stack_len();
            if len >= before {
                return bad(&ph("undo"), "stack-does-not-shrink", format!("{before} -> {len}"), before);
            }
            if let Some((_, s, _)) = expect_at(len) {
                let (f, d) = first_diff(s, &snap(&st));
                if f != "none" {
                    return bad(&ph("undo"), &f, d, len);
                }
            }
        }
        // ---- redo everything
        while st.can_redo() && st.undo_stack_len() < final_len {
            let before = st.undo_stack_len();
            if std::env::var_os("VERIF_C08_TRACE").is_some() {
                eprintln!("redo at len {before} can_redo={} layers={:?}", st.can_redo(), st.get_buffer().layers.iter().map(|l| (l.get_width(), l.get_height(), l.lines.len())).collect::<Vec<_>>());
            }
            let r = std::panic::catch_unwind(std::panic::AssertUnwindSafe(|| st.redo()));
            match r {
                Err(e) => return bad(&ph("redo-panics"), "panic", panic_text(e), before),
                Ok(Err(e)) => return bad(&ph("redo-err"), "error", e.to_string(), before),
                Ok(Ok(())) => {}
            }
            let len = st.undo_stack_len();
            if let Some((_, s, _)) = expect_at(len) {
                let (f, d) = first_diff(s, &snap(&st));
                if f != "none" {
                    return bad(&ph("redo"), &f, d, len);
                }
            }
        }
        if st.undo_stack_len() != final_len {
            return bad(&ph("redo"), "stack-length", format!("{} after redoing everything, {} before", st.undo_stack_len(), final_len), final_len);
        }
        let (f, d) = first_diff(&s_final, &snap(&st));
        if f != "none" {
            return bad(&ph("redo"), &f, d, final_len);
        }
    }
    // ---- random walk over undo / redo
    let mut rng = Rng::new(case.walk);
    for _ in 0..(2 * (final_len - l0) + 4) {
        let go_undo = rng.bool();
        let before = st.undo_stack_len();
        if std::env::var_os("VERIF_C08_TRACE").is_some() {
            eprintln!("walk: {} at len {before} can_redo={} layers={:?}", if go_undo { "undo" } else { "redo" }, st.can_redo(), st.get_buffer().layers.iter().map(|l| (l.get_width(), l.get_height(), l.lines.len())).collect::<Vec<_>>());
        }
        let r = std::panic::catch_unwind(std::panic::AssertUnwindSafe(|| {
            if go_undo {
                if st.undo_stack_len() > l0 {
                    st.undo()
                } else {
                    Ok(())
                }
            } else if st.can_redo() {
                st.redo()
            } else {
                Ok(())
            }
        }));
        match r {
            Err(e) => return bad("walk-panics", "panic", panic_text(e), before),
            Ok(Err(e)) => return bad("walk-err", "error", e.to_string(), before),
            Ok(Ok(())) => {}
        }
        let len = st.undo_stack_len();
        if len >= l0 && len <= final_len {
            if let Some((_, s, _)) = expect_at(len) {
                let (f, d) = first_diff(s, &snap(&st));
                if f != "none" {
                    return bad("walk", &f, d, len);
                }
            }
        }
    }
    // ---- a new edit after an undo discards the redo history
    if final_len > l0 {
        while st.undo_stack_len() >= final_len && st.undo_stack_len() > l0 {
            if st.undo().is_err() {
                break;
            }
        }
        if st.can_redo() {
            // the new edit is any operation that records an undo entry: set_char on odd seeds, otherwise drawn from the
            // whole operation alphabet (crop, resize, selection and layer operations take other paths to the undo stack)
            let mut tries = 0;
            let mut edit: Option<EOp> = None;
            while tries < 6 && edit.is_none() {
                let op = if tries == 5 || (tries == 0 && case.walk % 3 == 0) { EOp::SetChar(0, 0, 0x23, 1, 2) } else { gen_op(&mut rng) };
                tries += 1;
                if matches!(op, EOp::SetCurrentLayer(_) | EOp::SetCaret(..) | EOp::SetMirrorMode(_)) {
                    continue;
                }
                if !st.can_redo() {
                    break;
                }
                let before = st.undo_stack_len();
                let r = std::panic::catch_unwind(std::panic::AssertUnwindSafe(|| apply(&mut st, &op)));
                match r {
                    Ok(Ok(())) if st.undo_stack_len() > before => edit = Some(op),
                    Ok(_) => {}
                    Err(e) => {
                        // a panicking operation is not an edit that reported success; the state is no longer defined
                        let _ = panic_text(e);
                        break;
                    }
                }
            }
            if let Some(op) = edit {
                if st.can_redo() {
                    return bad("new-edit-after-undo", &format!("redo-still-possible-after-{}", op.kind()), String::new(), st.undo_stack_len());
                }
                let s = snap(&st);
                let _ = std::panic::catch_unwind(std::panic::AssertUnwindSafe(|| st.redo()));
                let (f, d) = first_diff(&s, &snap(&st));
                if f != "none" {
                    return bad("new-edit-after-undo", &format!("redo-changes-document:{f}"), d, st.undo_stack_len());
                }
            }
        }
    }
    Verdict::Ok {
        executed,
        pushed: final_len - l0,
        changed: s_final != s0,
        op_panic: None,
    }
}

// ---------------------------------------------------------------- generation

const W: i32 = 12;
const H: i32 = 8;

fn gen_doc(rng: &mut Rng) -> DocD {
    let mut d = DocD::single(W, H);
    d.layers.clear();
    // buffer modes: every font mode (the font operations branch on it), every ice mode, every palette mode
    d.font_mode = *rng.pick(&[0u8, 0, 0, 1, 2, 3]);
    d.ice = *rng.pick(&[0u8, 1, 1, 2, 2]);
    d.palette_mode = *rng.pick(&[0u8, 1, 1, 2, 3]);
    // a second (and third) font so that font pages in cells mean something
    let extra_fonts = if d.font_mode == 0 || d.font_mode == 3 { rng.usize(3) } else { 0 };
    if extra_fonts >= 1 {
        d.fonts.push(doc::FontD { slot: 1, name: "second".into(), height: 16, builtin: Some(1 + rng.usize(5)), data: vec![], sauce_name: None });
    }
    if extra_fonts >= 2 {
        d.fonts.push(doc::FontD { slot: 5, name: "fifth".into(), height: 16, builtin: None, data: (0..256 * 16).map(|i| (i * 3) as u8).collect(), sauce_name: None });
    }
    if rng.chance(1, 4) {
        d.palette = Some((0..*rng.pick(&[16usize, 16, 24, 40])).map(|i| ((i * 9) as u8, (255 - i * 5) as u8, (i * 31) as u8)).collect());
    }
    if rng.chance(1, 3) {
        d.sauce = Some(doc::random_sauce(rng));
    }
    let max_bg = if d.ice == 1 { 8 } else { 16 };
    let n = 1 + rng.usize(3);
    for i in 0..n {
        let mut l = if i == 0 { LayerD::plain(W, H) } else { LayerD::plain(1 + rng.usize(W as usize) as i32, 1 + rng.usize(H as usize) as i32) };
        l.title = format!("L{i}");
        if i > 0 {
            l.alpha = rng.chance(2, 3);
            l.ox = rng.range(-3, 8) as i32;
            l.oy = rng.range(-2, 5) as i32;
            l.visible = rng.chance(4, 5);
            l.locked = rng.chance(1, 8);
            if extra_fonts >= 1 && rng.chance(1, 4) {
                l.default_font_page = 1;
            }
        }
        for y in 0..l.h {
            for x in 0..l.w {
                if rng.chance(if i == 0 { 60 } else { 40 }, 100) {
                    // glyphs the ice-mode conversion treats specially (blank, shades, half blocks, solid) among letters
                    let ch = if rng.chance(1, 4) { *rng.pick(&[0u32, 32, 255, 176, 177, 178, 219, 220, 221, 222, 223]) } else { 0x41 + rng.below(26) as u32 };
                    let blink = d.ice != 2 && rng.chance(1, 8);
                    let fp = match extra_fonts {
                        0 => 0,
                        1 => *rng.pick(&[0u16, 0, 0, 1]),
                        _ => *rng.pick(&[0u16, 0, 1, 5]),
                    };
                    l.cells.push(CellD { x, y, ch, fg: rng.below(16) as u32, bg: rng.below(max_bg) as u32, attr: if blink { icy_engine::attribute::BLINK } else { 0 }, fp });
                }
            }
        }
        d.layers.push(l);
    }
    d
}

/// the three documents of the exhaustive part: (0) unlimited fonts with three fonts in use, 2+ layers;
/// (1) single-font ice document; (2) blink-mode document with more than one layer
fn fixed_doc(dsel: u64) -> DocD {
    for i in 0..10_000u64 {
        let mut drng = Rng::new(0xD0C0 + dsel + 16 * i);
        let d = gen_doc(&mut drng);
        let ok = match dsel {
            0 => d.font_mode == 0 && d.fonts.len() == 2 && d.layers.len() >= 2,
            1 => d.font_mode == 2 && d.ice == 2,
            _ => d.ice == 1 && d.layers.len() >= 2 && d.font_mode != 0,
        };
        if ok {
            return d;
        }
    }
    gen_doc(&mut Rng::new(0xD0C0 + dsel))
}

fn pos(rng: &mut Rng) -> (i32, i32) {
    match rng.usize(8) {
        0 => (-1, rng.range(0, H as i64 - 1) as i32),
        1 => (W, rng.range(0, H as i64 - 1) as i32),
        2 => (rng.range(0, W as i64 - 1) as i32, H),
        3 => (0, 0),
        4 => (W - 1, H - 1),
        _ => (rng.range(0, W as i64 - 1) as i32, rng.range(0, H as i64 - 1) as i32),
    }
}

fn layer_idx(rng: &mut Rng) -> usize {
    *rng.pick(&[0usize, 0, 1, 1, 2, 3])
}

pub fn gen_op(rng: &mut Rng) -> EOp {
    match rng.usize(74) {
        58 => EOp::SetSauceFont(rng.usize(40)),
        59 => EOp::AddFont(rng.below(8) as u8),
        60 => EOp::SetFont(rng.below(8) as u8),
        61 => EOp::ReplaceFontUsage(*rng.pick(&[0usize, 1, 5, 100]), *rng.pick(&[0usize, 1, 5, 7])),
        62 => EOp::ChangeFontSlot(*rng.pick(&[0usize, 1, 5, 100]), *rng.pick(&[0usize, 1, 2, 5, 9])),
        63 => EOp::RemoveFont(*rng.pick(&[0usize, 1, 1, 5, 100, 7])),
        64 => EOp::SwitchToPalette(rng.below(12) as u8),
        65 => EOp::UpdateSauce(rng.below(256) as u8),
        66 => EOp::UpdateLayerProps(layer_idx(rng), rng.below(256) as u8),
        67 => EOp::AddFloatingLayer,
        68 => EOp::PasteSixel(*rng.pick(&[1, 8, 9, 20]), *rng.pick(&[1, 16, 17, 6])),
        69 => EOp::UndoCaretPosition,
        70 => EOp::SetIceMode(rng.usize(3) as u8),
        71 => EOp::SetMirrorMode(rng.bool()),
        72 => EOp::EnumerateSelections(rng.below(3) as u8),
        73 => EOp::RenderTdfGlyph(rng.below(8) as u8, *rng.pick(&[65u8, 66, 97, 33, 48, 126, 32])),
        0 | 1 => EOp::SetCurrentLayer(layer_idx(rng)),
        2 | 3 => {
            let p = pos(rng);
            EOp::SetCaret(p.0, p.1)
        }
        4..=8 => {
            let p = pos(rng);
            EOp::SetChar(p.0, p.1, 0x30 + rng.below(10) as u32, rng.below(16) as u32, rng.below(16) as u32)
        }
        9 => {
            let (a, b) = (pos(rng), pos(rng));
            EOp::SwapChar(a.0, a.1, b.0, b.1)
        }
        10 => EOp::AddLayer(layer_idx(rng)),
        11 => EOp::RemoveLayer(layer_idx(rng)),
        12 => EOp::RaiseLayer(layer_idx(rng)),
        13 => EOp::LowerLayer(layer_idx(rng)),
        14 => EOp::DuplicateLayer(layer_idx(rng)),
        15 => EOp::ClearLayer(layer_idx(rng)),
        16 => EOp::MergeDown(layer_idx(rng)),
        17 => EOp::ToggleVisibility(layer_idx(rng)),
        18 => EOp::MoveLayer(rng.range(-4, 8) as i32, rng.range(-3, 6) as i32),
        19 | 20 => EOp::SetLayerSize(layer_idx(rng), *rng.pick(&[1, 3, 6, W, W + 4]), *rng.pick(&[1, 2, 4, H, H + 3])),
        21 | 22 => EOp::ResizeBuffer(rng.bool(), *rng.pick(&[1, 5, W, W + 5]), *rng.pick(&[1, 4, H, H + 4])),
        23 => EOp::Crop,
        24 => EOp::CropRect(rng.range(0, 4) as i32, rng.range(0, 3) as i32, rng.range(1, 8) as i32, rng.range(1, 5) as i32),
        25..=28 => EOp::SetSelection(rng.range(-1, 8) as i32, rng.range(-1, 5) as i32, rng.range(1, 9) as i32, rng.range(1, 6) as i32),
        29 => EOp::ClearSelection,
        30 => EOp::Deselect,
        31 => EOp::AddSelectionToMask,
        32 => EOp::InverseSelection,
        33 => EOp::EraseSelection,
        34 => EOp::FlipX,
        35 => EOp::FlipY,
        36 => EOp::JustifyLeft,
        37 => EOp::JustifyRight,
        38 => EOp::Center,
        39 => EOp::InsertRow,
        40 => EOp::DeleteRow,
        41 => EOp::InsertColumn,
        42 => EOp::DeleteColumn,
        43 => rng.pick(&[EOp::EraseRow, EOp::EraseRowToStart, EOp::EraseRowToEnd, EOp::EraseColumn, EOp::EraseColumnToStart, EOp::EraseColumnToEnd]).clone(),
        44 => rng.pick(&[EOp::CenterLine, EOp::JustifyLineLeft, EOp::JustifyLineRight]).clone(),
        45 => EOp::ScrollUp,
        46 => EOp::ScrollDown,
        47 => EOp::ScrollLeft,
        48 => EOp::ScrollRight,
        49 => EOp::Rotate,
        50 => EOp::MakeTransparent,
        51 => EOp::StampDown,
        52 => EOp::Paste(rng.range(0, 6) as i32, rng.range(0, 4) as i32, rng.range(1, 4) as i32, rng.range(1, 3) as i32),
        53 => EOp::Anchor,
        54 => EOp::SetIceMode(rng.usize(3) as u8),
        55 => EOp::SetPaletteMode(rng.usize(4) as u8),
        56 => {
            if rng.bool() {
                EOp::SetAnsiFont(rng.usize(5))
            } else {
                EOp::AddAnsiFont(rng.usize(5))
            }
        }
        _ => EOp::SwitchFontPage(rng.usize(3)),
    }
}

/// the instantiated alphabet of the exhaustive part
fn alphabet() -> Vec<EOp> {
    vec![
        EOp::SetCurrentLayer(1),
        EOp::SetCaret(2, 1),
        EOp::SetChar(1, 1, 0x31, 4, 2),
        EOp::SetChar(W, 0, 0x32, 4, 2),
        EOp::SwapChar(0, 0, 3, 2),
        EOp::SwapChar(0, 0, W, 2),
        EOp::AddLayer(0),
        EOp::RemoveLayer(0),
        EOp::RemoveLayer(1),
        EOp::RaiseLayer(0),
        EOp::LowerLayer(1),
        EOp::DuplicateLayer(0),
        EOp::ClearLayer(0),
        EOp::ClearLayer(1),
        EOp::MergeDown(1),
        EOp::ToggleVisibility(0),
        EOp::MoveLayer(2, 1),
        EOp::SetLayerSize(0, 6, 4),
        EOp::SetLayerSize(0, W + 4, H + 3),
        EOp::ResizeBuffer(false, 5, 4),
        EOp::ResizeBuffer(true, 5, 4),
        EOp::ResizeBuffer(true, W + 5, H + 4),
        EOp::Crop,
        EOp::SetSelection(1, 1, 5, 3),
        EOp::ClearSelection,
        EOp::AddSelectionToMask,
        EOp::InverseSelection,
        EOp::EraseSelection,
        EOp::FlipX,
        EOp::FlipY,
        EOp::JustifyLeft,
        EOp::JustifyRight,
        EOp::Center,
        EOp::InsertRow,
        EOp::DeleteRow,
        EOp::InsertColumn,
        EOp::DeleteColumn,
        EOp::EraseRow,
        EOp::EraseColumnToEnd,
        EOp::CenterLine,
        EOp::ScrollUp,
        EOp::ScrollDown,
        EOp::ScrollLeft,
        EOp::ScrollRight,
        EOp::Rotate,
        EOp::MakeTransparent,
        EOp::StampDown,
        EOp::Paste(2, 1, 3, 2),
        EOp::Anchor,
        EOp::SetIceMode(2),
        EOp::SetPaletteMode(0),
        EOp::SetAnsiFont(1),
        EOp::AddAnsiFont(2),
        EOp::SwitchFontPage(1),
        EOp::SetIceMode(1),
        EOp::SetSauceFont(3),
        EOp::AddFont(1),
        EOp::SetFont(2),
        EOp::ReplaceFontUsage(1, 0),
        EOp::ChangeFontSlot(1, 5),
        EOp::RemoveFont(1),
        EOp::SwitchToPalette(2),
        EOp::UpdateSauce(5),
        EOp::UpdateLayerProps(0, 0b0001_1000),
        EOp::UpdateLayerProps(1, 0b1000_0011),
        EOp::AddFloatingLayer,
        EOp::PasteSixel(9, 17),
        EOp::UndoCaretPosition,
        EOp::SetMirrorMode(true),
        EOp::EnumerateSelections(0),
        EOp::RenderTdfGlyph(0, 65),
    ]
}

#[derive(Default)]
pub struct C08 {
    alpha: Vec<EOp>,
    fixed: Vec<DocD>,
    n_exh: u64,
    n_triples_sampled: bool,
}

impl C08 {
    fn case_for(&self, ctx: &Ctx, k: u64) -> Case08 {
        let n = self.alpha.len() as u64;
        let mut rng = ctx.rng(k);
        if k < self.n_exh {
            // histories of length 1, 2 (and 3) over the instantiated alphabet, on 3 fixed documents
            let mut r = k;
            let dsel = r % 3;
            r /= 3;
            let ops = if r < n {
                vec![self.alpha[r as usize].clone()]
            } else if r < n + n * n {
                let q = r - n;
                vec![self.alpha[(q / n) as usize].clone(), self.alpha[(q % n) as usize].clone()]
            } else {
                let mut q = r - n - n * n;
                if self.n_triples_sampled {
                    q = crate::rng::mix(ctx.seed, k) % (n * n * n);
                }
                vec![self.alpha[(q / (n * n)) as usize].clone(), self.alpha[((q / n) % n) as usize].clone(), self.alpha[(q % n) as usize].clone()]
            };
            return Case08 { doc: self.fixed[dsel as usize].clone(), ops, walk: k };
        }
        let long = rng.chance(1, 4);
        let len = 1 + rng.usize(if long { 40 } else { 8 });
        Case08 {
            doc: gen_doc(&mut rng),
            ops: (0..len).map(|_| gen_op(&mut rng)).collect(),
            walk: rng.next_u64(),
        }
    }

    fn exec(&mut self, ctx: &mut Ctx, case: &Case08) {
        let c = case.clone();
        let (out, _m) = guarded(Budgets { work: 1_000_000_000, ..Budgets::default() }, move || run(&c));
        ctx.count("histories", 1);
        match out {
            Outcome::Done(Verdict::Ok { executed, pushed, changed, op_panic }) => {
                if let Some((kind, what)) = op_panic {
                    ctx.count("histories_ended_by_a_panicking_operation_(outside_C08)", 1);
                    ctx.count(&format!("op_panic:{kind}:{}", crate::mon::msg_template(&what)), 1);
                }
                ctx.count("operations_executed", executed as u64);
                ctx.count("undo_entries_walked", pushed as u64);
                if changed && pushed > 0 {
                    // non-trivial: the history changed the document and pushed undo entries
                    ctx.fp(crate::rng::mix(pushed as u64, crate::rng::hash_str(&format!("{:?}", case.ops.iter().map(|o| o.kind()).collect::<Vec<_>>()))));
                    ctx.count("histories_that_changed_the_document", 1);
                }
                if ctx.want_sample() && changed && ctx.evaluations % 601 == 7 {
                    ctx.sample(json!({"layers": case.doc.layers.len(), "ops": case.ops, "undo_entries": pushed}));
                }
            }
            Outcome::Done(Verdict::Bad(key0, detail0)) => {
                let phase_field = |k: &str| -> (String, String) {
                    let p: Vec<&str> = k.split('|').collect();
                    (p.first().unwrap_or(&"").to_string(), p.last().unwrap_or(&"").to_string())
                };
                let (ph, fl) = phase_field(&key0);
                let mut used = case.clone();
                if !ctx.replay {
                    let ops = shrink_list(&case.ops, 150, |cand| {
                        if cand.is_empty() {
                            return false;
                        }
                        let c2 = Case08 { doc: case.doc.clone(), ops: cand.to_vec(), walk: case.walk };
                        let (o, _) = guarded(Budgets { work: 1_000_000_000, ..Budgets::default() }, || run(&c2));
                        match o {
                            Outcome::Done(Verdict::Bad(k, _)) => phase_field(&k) == (ph.clone(), fl.clone()),
                            _ => false,
                        }
                    });
                    used.ops = ops;
                    // fewer layers / cells in the document
                    for li in (1..used.doc.layers.len()).rev() {
                        let mut c2 = used.clone();
                        c2.doc.layers.remove(li);
                        if let (Outcome::Done(Verdict::Bad(k, _)), _) = guarded(Budgets { work: 1_000_000_000, ..Budgets::default() }, || run(&c2)) {
                            if phase_field(&k) == (ph.clone(), fl.clone()) {
                                used = c2;
                            }
                        }
                    }
                }
                let (key, detail) = match guarded(Budgets { work: 1_000_000_000, ..Budgets::default() }, || run(&used)).0 {
                    Outcome::Done(Verdict::Bad(k, d)) => (k, d),
                    _ => (key0, detail0),
                };
                ctx.violation(&format!("history|{key}"), detail, serde_json::to_value(&used).unwrap());
            }
            Outcome::Panicked(p) => match p.kind {
                PanicKind::Engine | PanicKind::Harness => ctx.count("histories_ended_by_unexpected_panic", 1),
                _ => ctx.count("resource_events", 1),
            },
        }
    }
}

impl Prop for C08 {
    fn id(&self) -> &'static str {
        "C08"
    }
    fn rule(&self) -> &'static str {
        "a history is a sequence of public EditState operations (set/swap char, add/remove/raise/lower/duplicate/clear/merge/toggle/move/resize layer, resize buffer with and without layers, crop, selection set/clear/add-to-mask/inverse, erase, flip x/y, justify, center, insert/delete row and column, erase row/column, scroll area, rotate, make transparent, stamp down, paste (clipboard cells and sixel images) and anchor, floating layers, layer properties, ice/palette mode, palette replacement, SAUCE data and font changes (ANSI / SAUCE / custom fonts set and added, font usage replaced, font slots moved and removed), plus current-layer / caret / mirror-mode changes, enumerate_selections and TheDraw glyph rendering) on a 12x8 document of 1..=3 layers (alpha, offset, hidden, locked; every font mode, ice mode and palette mode, up to three fonts with cells on pages 0/1/5, bright backgrounds and blinking cells, shade / half-block / solid glyphs, custom palettes, with and without SAUCE). After every operation that returns Ok the harness records (undo stack length, snapshot of buffer size, modes, palette, fonts, SAUCE and per layer order, properties, size, offset, default font page and every cell TextPane::get_char shows within the layer's size; content hidden by a smaller size becomes observable, and is then compared, when a later undo grows the size back). It then undoes everything (undo must return Ok, never panic, shrink the stack; at every length that equals an operation boundary the snapshot of that boundary must be back), redoes everything (same check, final snapshot), does both rounds a second time (a record must survive being undone and redone repeatedly), takes a random undo/redo walk, and checks that a new edit after an undo (set_char or an operation drawn from the whole alphabet that records an undo entry) clears the redo history. Exhaustive: all histories of length 1 and 2 over a 71-operation instantiated alphabet on 3 documents (length 3: thorough complete, quick sampled); random histories up to length 40. An operation that returns Err ends the history; one that panics is outside C08 (counted). distinct_nontrivial = distinct (op-kind sequence, undo depth) histories that changed the document"
    }
    fn meta(&self, ctx: &Ctx) -> Value {
        json!({"floor_evaluations": 5000, "floor_distinct": ctx.tier.pick(2000u64, 50000u64),
               "assumptions": ["selection state, caret and current layer are editor state, not part of the document", "stored cells outside a layer's current size are not compared while they are hidden, only once an undo makes them visible again", "all invisible cells are equal"]})
    }
    fn total(&mut self, ctx: &Ctx) -> u64 {
        self.alpha = alphabet();
        self.fixed = (0..3).map(fixed_doc).collect();
        let n = self.alpha.len() as u64;
        let full3 = n * n * n;
        self.n_triples_sampled = ctx.tier == crate::ctx::Tier::Quick;
        let triples = ctx.tier.pick(20_000, full3);
        self.n_exh = 3 * (n + n * n + triples);
        self.n_exh + ctx.tier.pick(30_000, 400_000)
    }
    fn run_case(&mut self, ctx: &mut Ctx, k: u64) {
        let case = self.case_for(ctx, k);
        ctx.begin(k);
        self.exec(ctx, &case);
    }
    fn replay(&mut self, ctx: &mut Ctx, case: &Value) {
        let c: Case08 = serde_json::from_value(case.clone()).expect("c08 case");
        ctx.begin(0);
        self.exec(ctx, &c);
    }
}

