//! C20 — RIPscrip and IGS command streams never crash or stall the engine.
use serde_json::{json, Value};

use crate::ctx::Ctx;
use crate::mon::{Budgets, PanicKind};
use crate::rng::{hash_str, mix, Rng};
use crate::shrink::shrink_list;
use crate::stream::{printable, run_stream, RunOpts, StreamCase};
use crate::Prop;

#[derive(Default)]
pub struct C20 {
    n_rip_uniform: u64,
    n_rip_mixed: u64,
    n_igs_table: u64,
    n_rip_pairs: u64,
    n_igs_mixed: u64,
    igs_mixed_len: u32,
    n_rip_viewport: u64,
    n_igs_blit: u64,
    n_rip_selector: u64,
    n_rip_text: u64,
}

/// (level prefix, command letter)
const RIP_CMDS: &[(&str, u8)] = &[
    ("", b'w'), ("", b'v'), ("", b'*'), ("", b'e'), ("", b'E'), ("", b'g'), ("", b'H'), ("", b'>'), ("", b'c'), ("", b'Q'), ("", b'a'), ("", b'W'),
    ("", b'm'), ("", b'T'), ("", b'@'), ("", b'Y'), ("", b'X'), ("", b'L'), ("", b'R'), ("", b'B'), ("", b'C'), ("", b'O'), ("", b'o'), ("", b'A'),
    ("", b'V'), ("", b'I'), ("", b'i'), ("", b'Z'), ("", b'P'), ("", b'p'), ("", b'l'), ("", b'F'), ("", b'='), ("", b'S'), ("", b's'), ("", b'$'), ("", b'#'),
    ("1", b'M'), ("1", b'K'), ("1", b'T'), ("1", b't'), ("1", b'E'), ("1", b'C'), ("1", b'P'), ("1", b'W'), ("1", b'I'), ("1", b'B'), ("1", b'U'), ("1", b'D'),
    ("1", 0x1b), ("1", b'G'), ("1", b'R'), ("1", b'F'), ("9", 0x1b), ("", b'x'), ("1", b'x'), ("9", b'x'),
];

const IGS_CMDS: &[u8] = b"AbBCDEFfgGqHIJkKLzMnNOPQRsStTUVWYZ<?cdilmprvwX&";

fn rip_cmd(out: &mut Vec<u8>, level: &str, cmd: u8, params: &[u8]) {
    out.push(b'|');
    out.extend_from_slice(level.as_bytes());
    out.push(cmd);
    out.extend_from_slice(params);
}

fn rip_state_prefix(rng: &mut Rng) -> Vec<u8> {
    let mut out = b"!".to_vec();
    let n = rng.usize(5);
    for _ in 0..n {
        match rng.usize(9) {
            0 => rip_cmd(&mut out, "", b'v', format!("{}{}{}{}", b36(rng.range(0, 700), 2), b36(rng.range(0, 400), 2), b36(rng.range(0, 700), 2), b36(rng.range(0, 400), 2)).as_bytes()),
            1 => rip_cmd(&mut out, "", b'w', format!("{}{}{}{}{}{}", b36(rng.range(0, 99), 2), b36(rng.range(0, 60), 2), b36(rng.range(0, 99), 2), b36(rng.range(0, 60), 2), rng.range(0, 1), rng.range(0, 4)).as_bytes()),
            2 => rip_cmd(&mut out, "", b'W', b36(rng.range(0, 5), 2).as_bytes()),
            3 => rip_cmd(&mut out, "", b'S', format!("{}{}", b36(rng.range(0, 15), 2), b36(rng.range(0, 20), 2)).as_bytes()),
            4 => rip_cmd(&mut out, "", b'c', b36(rng.range(0, 40), 2).as_bytes()),
            5 => rip_cmd(&mut out, "", b'=', format!("{}{}{}", b36(rng.range(0, 5), 2), b36(rng.range(0, 65535), 4), b36(rng.range(0, 4), 2)).as_bytes()),
            6 => rip_cmd(&mut out, "1", b'C', format!("{}{}{}{}0", b36(rng.range(0, 300), 2), b36(rng.range(0, 200), 2), b36(rng.range(0, 640), 2), b36(rng.range(0, 350), 2)).as_bytes()),
            7 => rip_cmd(&mut out, "", b'Y', format!("{}{}{}00", b36(rng.range(0, 12), 2), b36(rng.range(0, 2), 2), b36(rng.range(0, 12), 2)).as_bytes()),
            _ => rip_cmd(&mut out, "", b'Q', b"000102030405060708090A0B0C0D0E0F"),
        }
    }
    out.push(b'\n');
    out
}

fn b36(mut v: i64, len: usize) -> String {
    let mut s = Vec::new();
    for _ in 0..len {
        let d = (v % 36) as u8;
        s.push(if d < 10 { b'0' + d } else { b'A' + d - 10 });
        v /= 36;
    }
    s.reverse();
    String::from_utf8(s).unwrap()
}

fn rip_random(rng: &mut Rng) -> Vec<u8> {
    let mut out = Vec::new();
    let lines = 1 + rng.usize(4);
    for _ in 0..lines {
        out.push(b'!');
        let cmds = 1 + rng.usize(5);
        for _ in 0..cmds {
            let (lvl, c) = *rng.pick(RIP_CMDS);
            let n = match rng.usize(6) {
                0 => 0,
                1 => rng.usize(4),
                2 => 40 + rng.usize(40),
                _ => rng.usize(41),
            };
            let mut params = Vec::new();
            for _ in 0..n {
                let b = match rng.usize(12) {
                    0 => *rng.pick(b"$\\-+.,: !"),
                    1 => b'Z',
                    2 => rng.byte(),
                    3 | 4 => b'0',
                    _ => *rng.pick(b"0123456789ABCDEFGHIJKLMNOPQRSTUVWXYZ"),
                };
                params.push(b);
            }
            if rng.chance(1, 12) {
                // continuation line inside the parameters
                let at = rng.usize(params.len() + 1);
                params.insert(at, b'\\');
                params.insert(at + 1, b'\n');
            }
            if rng.chance(1, 10) {
                // text variable / text payload
                params.extend_from_slice(rng.pick(&["$DATE$", "$TIME$", "$RIPVER$", "$X$", "$", "$$", "hello world", "<>1:x", "((*Q::a,b))"]).as_bytes());
            }
            rip_cmd(&mut out, lvl, c, &params);
        }
        out.extend_from_slice(if rng.bool() { b"\n" } else { b"\r\n" });
        if rng.chance(1, 8) {
            out.extend_from_slice(b"plain text \x1b[1;31mred\x1b[0m\r\n");
        }
        if rng.chance(1, 6) {
            // RIPscrip detection / enable / disable requests of the ANSI side (CSI ! , CSI 0 ! , CSI 1 ! , CSI 2 ! , unknown)
            out.extend_from_slice(rng.pick(&["\x1b[!", "\x1b[0!", "\x1b[1!", "\x1b[2!", "\x1b[3!", "\x1b[1!\x1b[2!", "\x1b[99999!"]).as_bytes());
        }
    }
    out
}

fn igs_number(rng: &mut Rng) -> String {
    match rng.usize(12) {
        0 => "-1".into(),
        1 => "-50".into(),
        2 => "99999".into(),
        3 => "2147483647".into(),
        4 => "0".into(),
        5 => "1".into(),
        6 => "319".into(),
        7 => "199".into(),
        8 => "640".into(),
        9 => "".into(),
        _ => rng.range(0, 700).to_string(),
    }
}

fn igs_random(rng: &mut Rng) -> Vec<u8> {
    let mut out = Vec::new();
    let lines = 1 + rng.usize(4);
    for _ in 0..lines {
        out.extend_from_slice(b"G#");
        let cmds = 1 + rng.usize(5);
        for _ in 0..cmds {
            let c = *rng.pick(IGS_CMDS);
            if c == b'&' {
                // loop: from,to,step,delay,cmd@|, count, params...
                out.push(b'&');
                let delay = if rng.chance(1, 4) { rng.range(1, 9999) } else { 0 };
                out.extend_from_slice(format!("{},{},{},{},", igs_number(rng), igs_number(rng), igs_number(rng), delay).as_bytes());
                out.push(*rng.pick(b"LBOGDZzW@x"));
                out.push(*rng.pick(b"@|,"));
                let cnt = rng.range(0, 8);
                out.extend_from_slice(format!("{cnt},").as_bytes());
                for i in 0..(cnt + rng.range(0, 2)) {
                    out.extend_from_slice(rng.pick(&["x", "y", "+10", "-5", "!3", "0", "319", "99999", "q", ""]).as_bytes());
                    out.push(if i % 4 == 3 && rng.bool() { b':' } else { b',' });
                }
                out.push(b':');
                continue;
            }
            out.push(c);
            let n = rng.usize(13);
            for i in 0..n {
                if i > 0 {
                    out.push(b',');
                }
                out.extend_from_slice(igs_number(rng).as_bytes());
            }
            if c == b'W' && rng.bool() {
                out.extend_from_slice(b",text here@");
            } else if rng.chance(9, 10) {
                out.push(b':');
            }
        }
        out.extend_from_slice(if rng.bool() { b"\n" } else { b"\r\n" });
        if rng.chance(1, 8) {
            out.extend_from_slice(b"text\x1bHmore\r\n");
        }
    }
    out
}

impl C20 {
    fn uniform_case(&self, k: u64) -> StreamCase {
        // every RIP command x parameter-string length 0..=24 x {all-0, all-1, all-Z} x terminator {| , newline}
        let mut r = k;
        let term = r % 2;
        r /= 2;
        let digit = [b'0', b'1', b'Z'][(r % 3) as usize];
        r /= 3;
        let len = (r % 25) as usize;
        r /= 25;
        let (lvl, c) = RIP_CMDS[(r % RIP_CMDS.len() as u64) as usize];
        let mut bytes = b"!".to_vec();
        rip_cmd(&mut bytes, lvl, c, &vec![digit; len]);
        if term == 0 {
            bytes.extend_from_slice(b"|#|#|#\n");
        } else {
            bytes.extend_from_slice(b"\nabc\n");
        }
        StreamCase {
            emu: "rip".into(),
            music: 0,
            w: 80,
            h: 43,
            alloc: true,
            prefix: vec![],
            bytes,
        }
    }

    fn mixed_case(&self, k: u64) -> StreamCase {
        // every RIP command x every string over {0,1,Z} of length 0..=6
        let per_cmd: u64 = (0..=6).map(|l| 3u64.pow(l)).sum();
        let ci = (k / per_cmd) as usize % RIP_CMDS.len();
        let mut idx = k % per_cmd;
        let mut len = 0u32;
        loop {
            let c = 3u64.pow(len);
            if idx < c {
                break;
            }
            idx -= c;
            len += 1;
        }
        let params: Vec<u8> = (0..len).map(|i| [b'0', b'1', b'Z'][((idx / 3u64.pow(i)) % 3) as usize]).collect();
        let (lvl, c) = RIP_CMDS[ci];
        let mut bytes = b"!".to_vec();
        rip_cmd(&mut bytes, lvl, c, &params);
        bytes.extend_from_slice(b"\n");
        StreamCase {
            emu: "rip".into(),
            music: 0,
            w: 80,
            h: 43,
            alloc: true,
            prefix: vec![],
            bytes,
        }
    }

    fn rip_pair_case(&self, k: u64) -> StreamCase {
        // every ordered pair of RIP commands, each with a full-length parameter string of one digit class: the first
        // leaves a state (viewport, style, fill, font, saved image), the second draws on it
        let n = RIP_CMDS.len() as u64;
        let mut r = k;
        let d2 = [b'0', b'1', b'Z'][(r % 3) as usize];
        r /= 3;
        let d1 = [b'0', b'1', b'Z'][(r % 3) as usize];
        r /= 3;
        let (l2, c2) = RIP_CMDS[(r % n) as usize];
        r /= n;
        let (l1, c1) = RIP_CMDS[(r % n) as usize];
        let mut bytes = b"!".to_vec();
        rip_cmd(&mut bytes, l1, c1, &[d1; 24]);
        rip_cmd(&mut bytes, l2, c2, &[d2; 24]);
        bytes.extend_from_slice(b"\n");
        StreamCase {
            emu: "rip".into(),
            music: 0,
            w: 80,
            h: 43,
            alloc: true,
            prefix: vec![],
            bytes,
        }
    }

    fn igs_mixed_case(&self, k: u64, max_len: u32) -> StreamCase {
        // every IGS command x (A) every parameter vector of length 0..=max_len over {0,1,2,3,40,9999} and (B) every
        // vector of length max_len+1..=max_len+5 over {0,9999}, followed by a fixed probe that draws with whatever
        // pen / pattern / mode the command left behind
        const A: [&str; 6] = ["0", "1", "2", "3", "40", "9999"];
        const B: [&str; 2] = ["0", "9999"];
        // (C) the selector values of the state commands: text effects 1/2/4/8/16, text sizes 8/9/10/16/18/20, rotations and
        // marker / line types 1..=7, resolutions, patterns 1..=12: vectors of length 1..=3 over twelve values
        const C: [&str; 12] = ["0", "1", "2", "3", "4", "5", "6", "7", "8", "10", "16", "18"];
        let per_a: u64 = (0..=max_len).map(|l| 6u64.pow(l)).sum();
        let per_b: u64 = (max_len + 1..=max_len + 5).map(|l| 2u64.pow(l)).sum();
        let per_c: u64 = (1..=3u32).map(|l| 12u64.pow(l)).sum();
        let per_cmd = per_a + per_b + per_c;
        let c = IGS_CMDS[((k / per_cmd) % IGS_CMDS.len() as u64) as usize];
        let mut idx = k % per_cmd;
        let (vals, base, mut len): (&[&str], u64, u32) = if idx < per_a {
            (&A, 6, 0)
        } else if idx < per_a + per_b {
            idx -= per_a;
            (&B, 2, max_len + 1)
        } else {
            idx -= per_a + per_b;
            (&C, 12, 1)
        };
        loop {
            let n = base.pow(len);
            if idx < n {
                break;
            }
            idx -= n;
            len += 1;
        }
        let mut bytes = b"G#".to_vec();
        bytes.push(c);
        for i in 0..len {
            if i > 0 {
                bytes.push(b',');
            }
            bytes.extend_from_slice(vals[((idx / base.pow(i)) % base) as usize].as_bytes());
        }
        bytes.extend_from_slice(b":\nG#L0,0,9,9:\nG#B2,2,6,6,0:\nG#P3,3:\nG#W1,1,x@\nG#W300,190,edge text@\nG#W0,0,top@\n");
        if len <= 3 {
            // every drawing command whose behaviour depends on the state the first command may have left (fill
            // attributes with border, hollow mode, drawing mode, line / marker type, colours, resolution, scaling):
            // circles, ellipses, arcs, pie slices, rounded and filled rectangles, poly lines / fills, flood fill, line-to,
            // each once with in-canvas and once with far-out-of-canvas sizes
            bytes.extend_from_slice(b"G#O100,100,40:\nG#Q100,100,40,20:\nG#K100,100,40,0,90:\nG#J100,100,40,20,0,90:\nG#V100,100,40,0,90:\nG#Y100,100,40,20,0,90:\n");
            bytes.extend_from_slice(b"G#U5,5,60,40,1:\nG#Z5,5,30,30:\nG#z3,1,1,30,5,9,40:\nG#f3,1,1,30,5,9,40:\nG#F20,20:\nG#D50,50:\n");
            // poly line / fill with one and two values more, and one fewer, than the point count announces
            bytes.extend_from_slice(b"G#f3,1,1,30,5,9,40,7:\nG#f3,1,1,30,5,9,40,7,8:\nG#f3,1,1,30,5,9:\nG#z3,1,1,30,5,9,40,7:\nG#z3,1,1,30,5,9,40,7,8:\nG#z3,1,1,30,5,9:\n");
            bytes.extend_from_slice(b"G#O100,100,9999:\nG#Q50,50,9999,3:\nG#Q50,50,3,9999:\nG#K10,10,9999,0,360:\nG#V10,10,9999,0,360:\nG#U0,0,9999,9999,1:\nG#F0,0:\n");
        }
        bytes.extend_from_slice(b"G#s0:\n");
        StreamCase {
            emu: "igs".into(),
            music: 0,
            w: 80,
            h: 25,
            alloc: true,
            prefix: vec![],
            bytes,
        }
    }

    fn igs_table_case(&self, k: u64) -> StreamCase {
        // every IGS command x parameter count 0..=12 x value class
        let mut r = k;
        let vals = ["0", "1", "-50", "319", "640", "99999", "2147483647"];
        let v = vals[(r % 7) as usize];
        r /= 7;
        let n = (r % 13) as usize;
        r /= 13;
        let c = IGS_CMDS[(r % IGS_CMDS.len() as u64) as usize];
        let mut bytes = b"G#".to_vec();
        bytes.push(c);
        for i in 0..n {
            if i > 0 {
                bytes.push(b',');
            }
            bytes.extend_from_slice(v.as_bytes());
        }
        bytes.extend_from_slice(b":\nG#s0:\n");
        StreamCase {
            emu: "igs".into(),
            music: 0,
            w: 80,
            h: 25,
            alloc: true,
            prefix: vec![],
            bytes,
        }
    }

    fn random_case(&self, ctx: &Ctx, k: u64) -> StreamCase {
        let mut rng = ctx.rng(k);
        if rng.bool() {
            StreamCase {
                emu: "rip".into(),
                music: 0,
                w: 80,
                h: 43,
                alloc: rng.bool(),
                prefix: if rng.bool() { rip_state_prefix(&mut rng) } else { vec![] },
                bytes: if rng.chance(1, 12) { let n = 1 + rng.usize(200); let mut v = b"!|".to_vec(); v.extend(rng.bytes(n)); v } else { rip_random(&mut rng) },
            }
        } else {
            StreamCase {
                emu: "igs".into(),
                music: 0,
                w: 80,
                h: 25,
                alloc: rng.bool(),
                prefix: if rng.bool() { igs_random(&mut rng) } else { vec![] },
                bytes: if rng.chance(1, 12) { let n = 1 + rng.usize(200); let mut v = b"G#".to_vec(); v.extend(rng.bytes(n)); v } else { igs_random(&mut rng) },
            }
        }
    }

    fn case_for(&self, ctx: &Ctx, k: u64) -> (StreamCase, &'static str) {
        if k < self.n_rip_uniform {
            (self.uniform_case(k), "rip-uniform")
        } else if k < self.n_rip_uniform + self.n_rip_mixed {
            (self.mixed_case(k - self.n_rip_uniform), "rip-mixed")
        } else if k < self.n_rip_uniform + self.n_rip_mixed + self.n_igs_table {
            (self.igs_table_case(k - self.n_rip_uniform - self.n_rip_mixed), "igs-table")
        } else if k < self.n_rip_uniform + self.n_rip_mixed + self.n_igs_table + self.n_rip_pairs {
            (self.rip_pair_case(k - self.n_rip_uniform - self.n_rip_mixed - self.n_igs_table), "rip-pairs")
        } else if k < self.n_rip_uniform + self.n_rip_mixed + self.n_igs_table + self.n_rip_pairs + self.n_igs_mixed {
            (self.igs_mixed_case(k - self.n_rip_uniform - self.n_rip_mixed - self.n_igs_table - self.n_rip_pairs, self.igs_mixed_len), "igs-mixed")
        } else if k < self.n_rip_uniform + self.n_rip_mixed + self.n_igs_table + self.n_rip_pairs + self.n_igs_mixed + self.n_rip_viewport {
            (self.rip_viewport_case(k - self.n_rip_uniform - self.n_rip_mixed - self.n_igs_table - self.n_rip_pairs - self.n_igs_mixed), "rip-viewport")
        } else if k < self.n_rip_uniform + self.n_rip_mixed + self.n_igs_table + self.n_rip_pairs + self.n_igs_mixed + self.n_rip_viewport + self.n_igs_blit {
            (self.igs_blit_case(k - self.n_rip_uniform - self.n_rip_mixed - self.n_igs_table - self.n_rip_pairs - self.n_igs_mixed - self.n_rip_viewport), "igs-blit")
        } else if k < self.n_rip_uniform + self.n_rip_mixed + self.n_igs_table + self.n_rip_pairs + self.n_igs_mixed + self.n_rip_viewport + self.n_igs_blit + self.n_rip_selector {
            (self.rip_selector_case(k - self.n_rip_uniform - self.n_rip_mixed - self.n_igs_table - self.n_rip_pairs - self.n_igs_mixed - self.n_rip_viewport - self.n_igs_blit), "rip-selector")
        } else if k < self.n_rip_uniform + self.n_rip_mixed + self.n_igs_table + self.n_rip_pairs + self.n_igs_mixed + self.n_rip_viewport + self.n_igs_blit + self.n_rip_selector + self.n_rip_text {
            (self.rip_text_case(k - self.n_rip_uniform - self.n_rip_mixed - self.n_igs_table - self.n_rip_pairs - self.n_igs_mixed - self.n_rip_viewport - self.n_igs_blit - self.n_rip_selector), "rip-text")
        } else {
            (self.random_case(ctx, k), "random")
        }
    }

    fn rip_selector_case(&self, k: u64) -> StreamCase {
        // the small selector values of the RIP state commands (font number / direction / size, fill pattern, line style and
        // thickness, write mode, button style flags, clipboard modes ...): the digit classes {0,1,Z} of the other
        // enumerations only produce 0, 1, 35, 36, 37 ... in a two-digit field. Every command, every one of its first eight
        // two-digit fields in turn at each value 0..=15 (all other fields 01), followed by a probe that writes text, draws
        // and fills with whatever state the command left
        let mut r = k;
        let v = r % 16;
        r /= 16;
        let field = (r % 8) as usize;
        r /= 8;
        let (lvl, c) = RIP_CMDS[(r % RIP_CMDS.len() as u64) as usize];
        let mut params = String::new();
        for f in 0..12 {
            params.push_str(&if f == field { b36(v as i64, 2) } else { "01".to_string() });
        }
        let mut bytes = b"!".to_vec();
        rip_cmd(&mut bytes, lvl, c, params.as_bytes());
        bytes.extend_from_slice(b"|@1010text at a position|Thello|L00001010|B05050F0F|C1E1E0A|O1E1E005A0A|F0202|1U0A0A28140000label|X0101|l03010105050901\n");
        StreamCase {
            emu: "rip".into(),
            music: 0,
            w: 80,
            h: 43,
            alloc: true,
            prefix: vec![],
            bytes,
        }
    }

    fn rip_text_case(&self, k: u64) -> StreamCase {
        // commands that carry text after their numeric fields - buttons (icon<>label<>host command), mouse regions, text,
        // icon and file names - with a well-formed numeric part, under button styles that select each drawing variant
        // (every single bit of the two flag words), and with icon files present in the parser's directory: a good one, one
        // that ends after its header, one that declares 65536 x 65536 pixels, an empty one, a 1 x 1 one, a wide one
        const TEXTS: [&str; 34] = [
            "", "a", "OK", "icon<>label<>cmd", "<>label<>cmd", "<>label", "GOOD<>go<>^M", "GOOD.ICN<>go<>x", "SHORT<>s<>", "HUGE<>h<>", "EMPTY<>e<>", "ONE<>o<>", "WIDE<>w<>",
            "NOPE<>n<>", "a<>b<>c<>d<>e", "<><><>", "<>", "_under^score<>_la^bel_<>((*x::y))", "$DATE$<>$TIME$<>$X$", "GOOD", "good.icn", "SHORT.ICN", "HUGE", "EMPTY", "ONE", "WIDE",
            "NOPE", ".", "..", "tab\tx<>\x7f", "label only with spaces and a ~ tilde", "((prompt::a@b,c@d))", "<>^[<>^[", "",
        ];
        // (level, letter, number of numeric characters in front of the text)
        const CMDS: [(&str, u8, usize); 12] =
            [("1", b'U', 12), ("1", b'M', 17), ("1", b'I', 9), ("1", b'F', 6), ("1", b'R', 8), ("1", b'D', 5), ("1", 0x1b, 4), ("1", b't', 1), ("", b'T', 0), ("", b'@', 4), ("1", b'W', 1), ("1", b'E', 0)];
        let mut r = k;
        let text = if r % 34 == 33 { "W".repeat(300) } else { TEXTS[(r % 34) as usize].to_string() };
        r /= 34;
        let digits = (r % 4) as usize;
        r /= 4;
        // the button command under each of 24 button styles, the other commands under the first
        let combo = r % 35;
        let (lvl, c, nnum) = if combo < 24 { CMDS[0] } else { CMDS[(combo - 23) as usize] };
        // button style: width / height 0, 20 or ZZ; one bit of the 16-bit flag word or of the second flag word
        let style = if combo < 24 { combo } else { 0 };
        let (flags, flags2): (i64, i64) = if style < 17 { (if style == 0 { 0 } else { 1 << (style - 1) }, 0) } else { (0, 1 << (style - 17)) };
        let size = ["00", "0K", "ZZ"][(k % 3) as usize];
        let mut bytes = b"!".to_vec();
        rip_cmd(&mut bytes, "1", b'B', format!("{size}{size}00{}02{}{}{}{}{}00{}{}{}000000", b36(flags, 4), "0F", "01", "0E", "08", "07", b36(flags2, 2), "04", "0C").as_bytes());
        let num: String = match digits {
            0 => "0".repeat(nnum),
            1 => (0..nnum).map(|i| if i % 2 == 0 { '0' } else { 'A' }).collect(),
            2 => (0..nnum).map(|i| ['1', 'Z', '0', '5'][i % 4]).collect(),
            // x = 0, y = 345: the last text rows of the 640 x 350 screen (long texts run past the right edge there)
            _ => (0..nnum).map(|i| ['0', '0', '9', 'L'][i % 4]).collect(),
        };
        // a picture in the clipboard first (buttons and icons can stamp / use it)
        bytes.extend_from_slice(b"|1C05050K0K0");
        rip_cmd(&mut bytes, lvl, c, format!("{num}{text}").as_bytes());
        bytes.extend_from_slice(b"\n!|1U0A0A2814000plain<>second<>x|#|#\n");
        StreamCase {
            emu: "rip".into(),
            music: 0,
            w: 80,
            h: 43,
            alloc: true,
            prefix: vec![],
            bytes,
        }
    }

    fn igs_blit_case(&self, k: u64) -> StreamCase {
        // GrabScreen with its exact parameter counts (8 / 6 / 4 / 8 for screen-screen, screen-memory, memory-screen, piece of
        // memory-screen), every write mode 0..=15, seven rectangle patterns (inside, at the edges, inverted, partly and far
        // outside, empty), in each of the three resolutions; a grab always precedes the memory blits
        const RECTS: [(i32, i32, i32, i32); 7] = [(10, 10, 60, 40), (0, 0, 319, 199), (300, 180, 340, 220), (60, 40, 10, 10), (-20, -20, 30, 30), (5000, 5000, 9999, 9999), (7, 7, 7, 7)];
        let mut r = k;
        let (x0, y0, x1, y1) = RECTS[(r % 7) as usize];
        r /= 7;
        let mode = r % 16;
        r /= 16;
        let kind = r % 4;
        r /= 4;
        let res = r % 3;
        let (dx, dy) = [(0, 0), (100, 50), (-5, -5), (310, 190)][(k % 4) as usize];
        let mut s = format!("G#R{res},0:\nG#B0,0,50,50,0:\nG#L0,0,60,60:\n");
        match kind {
            0 => s.push_str(&format!("G#G0,{mode},{x0},{y0},{x1},{y1},{dx},{dy}:\n")),
            1 => s.push_str(&format!("G#G1,{mode},{x0},{y0},{x1},{y1}:\nG#G2,{mode},{dx},{dy}:\n")),
            2 => s.push_str(&format!("G#G1,3,0,0,40,30:\nG#G2,{mode},{x0},{y0}:\nG#G2,{mode},{dx},{dy}:\n")),
            _ => s.push_str(&format!("G#G1,3,{x0},{y0},{x1},{y1}:\nG#G3,{mode},{x0},{y0},{x1},{y1},{dx},{dy}:\nG#G3,{mode},0,0,9999,9999,{dx},{dy}:\n")),
        }
        s.push_str("G#s0:\n");
        StreamCase {
            emu: "igs".into(),
            music: 0,
            w: 80,
            h: 25,
            alloc: true,
            prefix: vec![],
            bytes: s.into_bytes(),
        }
    }

    fn rip_viewport_case(&self, k: u64) -> StreamCase {
        // every RIP command with meaningful (in-range) coordinates on every kind of viewport: the enumerations over the
        // digits {0,1,Z} only produce viewports glued to the top-left corner or degenerate ones. Viewports: full screen,
        // offset from the top, offset from the left, a window in the middle, the bottom-right quarter, a tiny one.
        const VIEWPORTS: [(i64, i64, i64, i64); 9] = [
            (0, 0, 639, 349),
            (0, 100, 639, 300),
            (200, 0, 500, 349),
            (100, 100, 300, 200),
            (320, 175, 639, 349),
            (10, 200, 20, 210),
            // corners on and beyond the edge of the 640x350 screen (the viewport has to be cut to the screen)
            (0, 0, 640, 350),
            (0, 0, 1295, 1295),
            (320, 175, 1295, 1295),
        ];
        let mut r = k;
        let pat = r % 4;
        r /= 4;
        let (lvl, c) = RIP_CMDS[(r % RIP_CMDS.len() as u64) as usize];
        r /= RIP_CMDS.len() as u64;
        let (x0, y0, x1, y1) = VIEWPORTS[(r % VIEWPORTS.len() as u64) as usize];
        let (w, h) = (x1 - x0, y1 - y0);
        // twelve two-digit numbers: coordinates relative to the viewport / absolute, inside / at the edges / beyond
        let nums: [i64; 12] = match pat {
            0 => [10, 10, w - 10, h - 10, w / 2, h / 2, 5, 5, 15, 0, 1, 2],
            1 => [w / 2, h / 2, 20, 10, 0, 360, w / 4, h / 4, 1, 1, 0, 0],
            2 => [0, 0, w, h, w + 40, h + 40, w, 0, 0, h, 3, 1],
            _ => [x0 + 5, y0 + 5, x1 - 5, y1 - 5, x0, y1, x1, y0, 7, 2, 1, 0],
        };
        let mut bytes = b"!".to_vec();
        rip_cmd(&mut bytes, "", b'v', format!("{}{}{}{}", b36(x0, 2), b36(y0, 2), b36(x1, 2), b36(y1, 2)).as_bytes());
        rip_cmd(&mut bytes, "", b'S', b"010C");
        rip_cmd(&mut bytes, "", b'c', b"0F");
        let params: String = nums.iter().map(|n| b36((*n).clamp(0, 1295), 2)).collect();
        rip_cmd(&mut bytes, lvl, c, params.as_bytes());
        // and a flood fill from inside the viewport afterwards (the drawing command may have drawn its border)
        rip_cmd(&mut bytes, "", b'F', format!("{}{}0F", b36((w / 2 + 1).clamp(0, 1295), 2), b36((h / 2 + 1).clamp(0, 1295), 2)).as_bytes());
        // and fills from the viewport's own corner, which spread over the whole viewport down to its last row and column
        rip_cmd(&mut bytes, "", b'F', b"00000A");
        rip_cmd(&mut bytes, "", b'F', b"05050F");
        bytes.extend_from_slice(b"\n");
        StreamCase {
            emu: "rip".into(),
            music: 0,
            w: 80,
            h: 43,
            alloc: true,
            prefix: vec![],
            bytes,
        }
    }
}

fn opts_for(case: &StreamCase) -> RunOpts {
    let canvas: u64 = if case.emu == "rip" { 640 * 350 } else { 640 * 400 };
    RunOpts {
        graphics: true,
        check_geometry: false,
        budgets: Budgets {
            // per command (the runner resets the counter at every command terminator):
            // a command may touch every pixel of the canvas a few times, never more
            work: 16 * canvas,
            depth: 32,
            block_ms: 0,
        },
        thread_budget: 50_000_000,
    }
}

/// the command that was executing at character `at` (or at the end of the stream)
fn command_of(case: &StreamCase, at: Option<usize>) -> String {
    let mut all: Vec<u8> = case.prefix.iter().chain(case.bytes.iter()).copied().collect();
    if let Some(at) = at {
        // the terminator at `at` executes the command that precedes it
        all.truncate(at.min(all.len()));
    }
    if case.emu == "igs" {
        // chained commands: the command letter follows the last ':' (or 'G#') on the line
        let line_start = all.iter().rposition(|b| *b == b'\n').map(|p| p + 1).unwrap_or(0);
        let line = &all[line_start..];
        if let Some(g) = line.windows(2).position(|w| w == b"G#") {
            let body = &line[g + 2..];
            let start = body.iter().rposition(|b| *b == b':').map(|p| p + 1).unwrap_or(0);
            if let Some(c) = body[start..].iter().find(|b| !matches!(**b, b' ' | b'>' | b'\r' | b'_')) {
                return format!("G#{}", *c as char);
            }
        }
        return "G#?".into();
    }
    if case.emu == "rip" {
        if let Some(p) = all.iter().rposition(|b| *b == b'|') {
            let rest = &all[p + 1..];
            let mut s = String::new();
            for b in rest.iter().take(2) {
                if b.is_ascii_graphic() {
                    s.push(*b as char);
                } else {
                    s.push_str(&format!("\\x{b:02X}"));
                }
                if !(*b == b'1' || *b == b'9') {
                    break;
                }
            }
            return format!("|{s}");
        }
    } else if let Some(p) = all.windows(2).rposition(|w| w == b"G#") {
        if let Some(c) = all.get(p + 2) {
            return format!("G#{}", *c as char);
        }
    }
    "?".into()
}

pub fn exec(ctx: &mut Ctx, case: &StreamCase, class: &str) {
    let opts = opts_for(case);
    let (mut obs, _) = run_stream(case, opts);
    // the CPU clock is the only machine-dependent monitor here: a reading over the limit counts only if two immediate
    // repetitions of the same stream are over the limit too (the smallest reading is kept)
    if obs.panic.is_none() && obs.bad_picture.is_none() && obs.measure.cpu_ns > 3_000_000_000 {
        ctx.count("cpu_clock_readings_over_limit_repeated", 1);
        for _ in 0..2 {
            let (again, _) = run_stream(case, opts);
            if again.measure.cpu_ns < obs.measure.cpu_ns {
                obs.measure.cpu_ns = again.measure.cpu_ns;
            }
        }
    }
    ctx.count("chars_fed", obs.fed as u64);
    ctx.count("errs_returned", obs.errs);
    ctx.count("pictures_checked", obs.pictures_checked);
    ctx.count("loop_steps_polled", obs.next_actions);
    ctx.count(&format!("cases_{class}"), 1);
    ctx.count(&format!("cases_emu_{}", case.emu), 1);
    ctx.max("max_ticks_one_case", obs.measure.ticks);
    ctx.max("max_cpu_ms_one_case", obs.measure.cpu_ns / 1_000_000);
    let head: Vec<u8> = case.bytes.iter().take(5).copied().collect();
    ctx.fp(mix(mix(hash_str(&case.emu), crate::rng::hash_bytes(&head)), (obs.kinds as u64) << 8 | (obs.panic.is_some() as u64) << 1 | (obs.pictures_checked > 0) as u64));
    if ctx.want_sample() && obs.pictures_checked > 0 && obs.measure.ticks > 500 {
        ctx.sample(json!({"class": class, "emu": case.emu, "prefix": printable(&case.prefix), "bytes": printable(&case.bytes), "errs": obs.errs,
            "pixel_ticks": obs.measure.ticks, "picture": obs.picture.map(|p| json!([p.0, p.1, p.2]))}));
    }
    let key_of = |o: &crate::stream::StreamObs| -> Option<String> {
        if let Some((_, p)) = &o.panic {
            let api = format!("{}-stream", case.emu);
            return Some(match &p.kind {
                PanicKind::WorkBudget { .. } => format!("work|{}", case.emu),
                PanicKind::BlockBudget { .. } => format!("blocks|{}", case.emu),
                PanicKind::DepthBudget { .. } => format!("nesting|{}", case.emu),
                _ => crate::ctx::panic_key(&api, p).0,
            });
        }
        if o.bad_picture.is_some() {
            return Some(format!("picture-size|{}", case.emu));
        }
        if o.measure.cpu_ns > 3_000_000_000 {
            return Some(format!("cpu|{}", case.emu));
        }
        None
    };
    let Some(key0) = key_of(&obs) else {
        for p in &obs.thread_panics {
            if matches!(p.kind, PanicKind::Engine) {
                ctx.panic_violation("decode-thread", p, serde_json::to_value(case).unwrap());
            }
        }
        return;
    };
    // shrink (first occurrence per worker), then key on the command that fails
    let mut cur = case.clone();
    if !ctx.replay && ctx.seen(&key0) == 0 && obs.measure.cpu_ns < 500_000_000 {
        ctx.violation_pending(&key0, json!({"emu": case.emu, "prefix": printable(&case.prefix), "stream": printable(&case.bytes)}), serde_json::to_value(case).unwrap());
        let fails = |c: &StreamCase| -> bool {
            let (o, _) = run_stream(c, opts_for(c));
            key_of(&o).as_deref() == Some(key0.as_str())
        };
        let p = shrink_list(&cur.prefix.clone(), 60, |cand| {
            let mut c = cur.clone();
            c.prefix = cand.to_vec();
            fails(&c)
        });
        cur.prefix = p;
        let b = shrink_list(&cur.bytes.clone(), 120, |cand| {
            let mut c = cur.clone();
            c.bytes = cand.to_vec();
            fails(&c)
        });
        cur.bytes = b;
    }
    let (o2, _) = run_stream(&cur, opts_for(&cur));
    let (o, used) = if key_of(&o2).as_deref() == Some(key0.as_str()) { (o2, cur) } else { (obs, case.clone()) };
    let mut detail = json!({"emu": used.emu, "prefix": printable(&used.prefix), "stream": printable(&used.bytes), "command": command_of(&used, o.panic.as_ref().map(|p| p.0).or(o.bad_picture.map(|b| b.0)))});
    let key = if let Some((at, p)) = &o.panic {
        detail["at_char"] = json!(at);
        match &p.kind {
            PanicKind::WorkBudget { ticks, budget } => {
                detail["what"] = json!("pixel work exceeds the canvas-size bound");
                detail["ticks"] = json!(ticks);
                detail["budget"] = json!(budget);
                format!("work|{}|{}", used.emu, command_of(&used, o.panic.as_ref().map(|p| p.0).or(o.bad_picture.map(|b| b.0))))
            }
            PanicKind::BlockBudget { ms } => {
                detail["what"] = json!("the emulation blocks the calling thread for an input-chosen time");
                detail["requested_ms"] = json!(ms);
                format!("blocks|{}|{}", used.emu, command_of(&used, o.panic.as_ref().map(|p| p.0).or(o.bad_picture.map(|b| b.0))))
            }
            _ => {
                let (k, d) = crate::ctx::panic_key(&format!("{}-stream", used.emu), p);
                detail["panic"] = d;
                k
            }
        }
    } else if let Some((at, w, h, len)) = o.bad_picture {
        detail["what"] = json!("get_picture_data() returned data whose length is not width*height*4");
        detail["at_char"] = json!(at);
        detail["size"] = json!([w, h]);
        detail["data_len"] = json!(len);
        format!("picture-size|{}|{}", used.emu, command_of(&used, o.panic.as_ref().map(|p| p.0).or(o.bad_picture.map(|b| b.0))))
    } else {
        detail["what"] = json!("more than 3 CPU-seconds for one stream");
        detail["cpu_ms"] = json!(o.measure.cpu_ns / 1_000_000);
        format!("cpu|{}|{}", used.emu, command_of(&used, o.panic.as_ref().map(|p| p.0).or(o.bad_picture.map(|b| b.0))))
    };
    ctx.violation(&key, detail, serde_json::to_value(&used).unwrap());
}

impl Prop for C20 {
    fn id(&self) -> &'static str {
        "C20"
    }
    fn rule(&self) -> &'static str {
        "streams are fed character by character to the real RIPscrip (640x350 BGI canvas, file commands pointed at an empty scratch directory) and IGS (DrawExecutor) emulations under the panic monitor, the pixel work counter (budget 8*(n+2)*canvas), the virtual blocking monitor (any sleep > 0 ms raises) and, after every command terminator, an assertion that get_picture_data() returns width*height*4 bytes; pending IGS loop steps are drained through get_next_action. cases: (rip-uniform) every RIP level-0/1/9 command x parameter length 0..=24 x {all-0, all-1, all-Z} x 2 terminators; (rip-mixed) every command x every string over {0,1,Z} up to length 6; (igs-table) every IGS command x 0..=12 parameters x 7 value classes incl. negative and 2^31-1; (rip-pairs) every ordered pair of RIP commands, each with 24 parameter characters of one class {0,1,Z}: state command then drawing command; (igs-mixed) every IGS command x every parameter vector of length 0..=4 (thorough 5) over {0,1,2,3,40,9999}, of the next five lengths over {0,9999} and of length 1..=3 over the selector values {0..8,10,16,18} (text effects / sizes / rotations, marker and line types, patterns, resolutions), followed by a drawing probe (line, box, marker, text; after vectors of length <= 3 also circle, ellipse, arcs, pie slices, rounded / filled rectangle, poly line / fill, flood fill and line-to, in-canvas and far out of canvas, so that border / hollow / mode / colour state set by the first command is used); (rip-viewport) every RIP command with four patterns of in-range coordinates (inside, centre + radii / angles, edges and beyond, absolute screen coordinates) on nine viewports (full, offset from the top, offset from the left, a middle window, the bottom-right quarter, tiny, one past the screen edge, far beyond it from the origin and from the middle), fill style and colour set, followed by a flood fill from inside the viewport; (rip-selector) every RIP command with each of its first eight two-digit fields in turn at each value 0..=15, followed by a text / line / bar / circle / fill / button probe; (igs-blit) GrabScreen with its exact parameter counts for all four kinds x 16 write modes x 7 rectangle patterns x 3 resolutions; (random) seeded mixed/over-long/truncated parameter lists, continuation lines, text variables, loops with delays, chained commands on a random state prefix. distinct_nontrivial = distinct (emulation, stream head, result kinds, panicked, picture observed) fingerprints"
    }
    fn meta(&self, _ctx: &Ctx) -> Value {
        json!({"floor_evaluations": 5000, "floor_distinct": 300, "watchdog_s": 60, "watchdog_is_violation": true, "plain_pass": "quick",
               "assumptions": ["RIP file commands see a scratch directory with six icon files written by the harness (good, short, huge-declared, empty, 1x1, wide)", "blocking is observed virtually at the sleep call site (hook H3)"]})
    }
    fn total(&mut self, ctx: &Ctx) -> u64 {
        self.n_rip_uniform = 2 * 3 * 25 * RIP_CMDS.len() as u64;
        let per_cmd: u64 = (0..=6).map(|l| 3u64.pow(l)).sum();
        self.n_rip_mixed = per_cmd * RIP_CMDS.len() as u64;
        self.n_igs_table = 7 * 13 * IGS_CMDS.len() as u64;
        self.n_rip_pairs = 9 * (RIP_CMDS.len() * RIP_CMDS.len()) as u64;
        self.igs_mixed_len = ctx.tier.pick(4, 5);
        let l = self.igs_mixed_len;
        self.n_igs_mixed = ((0..=l).map(|i| 6u64.pow(i)).sum::<u64>() + (l + 1..=l + 5).map(|i| 2u64.pow(i)).sum::<u64>() + (1..=3u32).map(|i| 12u64.pow(i)).sum::<u64>()) * IGS_CMDS.len() as u64;
        self.n_rip_viewport = 4 * 9 * RIP_CMDS.len() as u64;
        self.n_igs_blit = 7 * 16 * 4 * 3;
        self.n_rip_selector = 16 * 8 * RIP_CMDS.len() as u64;
        self.n_rip_text = 34 * 4 * 35;
        self.n_rip_uniform + self.n_rip_mixed + self.n_igs_table + self.n_rip_pairs + self.n_igs_mixed + self.n_rip_viewport + self.n_igs_blit + self.n_rip_selector + self.n_rip_text + ctx.tier.pick(30_000, 1_500_000)
    }
    fn run_case(&mut self, ctx: &mut Ctx, k: u64) {
        let (case, class) = self.case_for(ctx, k);
        ctx.begin(k);
        exec(ctx, &case, class);
    }
    fn replay(&mut self, ctx: &mut Ctx, case: &Value) {
        let c: StreamCase = serde_json::from_value(case.clone()).expect("stream case");
        ctx.begin(0);
        exec(ctx, &c, "replay");
    }
}
