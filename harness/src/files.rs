//! Seed corpus of files written by the engine's own writers, mutators, and the
//! guarded load entry points (C02, C03 file part, C10).
use std::path::PathBuf;

use icy_engine::{BitFont, Buffer, Palette, PaletteFormat, SauceData, SaveOptions, TheDrawFont};
use serde::{Deserialize, Serialize};

use crate::doc::{self, Chars, Colors, DocD, FontD, LayerD};
use crate::mon::{guarded, Budgets, Measure, Outcome};
use crate::rng::Rng;

pub const TDF_FONT: &[u8] = include_bytes!("/repo/src/tdf_font/CODERX.TDF");

pub const BUFFER_EXTS: [&str; 14] = ["ans", "icy", "idf", "bin", "xb", "tnd", "pcb", "avt", "asc", "adf", "msg", "an1", "seq", "ata"];
pub const ALL_EXTS: [&str; 27] = [
    "ans", "ice", "diz", "icy", "idf", "bin", "xb", "tnd", "pcb", "avt", "asc", "adf", "msg", "an1", "an2", "an5", "an9", "seq", "ata", "ANS", "Xb", "IcY", "txt", "nfo", "unknown", "a", "tar.gz",
];

#[derive(Clone, Debug, Serialize, Deserialize)]
pub struct LoadCase {
    /// "buf", "sauce", "font", "tdf", "pal:<fmt>", "palfile:<ext>"
    pub api: String,
    pub ext: String,
    pub bytes: Vec<u8>,
    #[serde(default)]
    pub origin: String,
}

#[derive(Clone, Debug)]
pub struct Seed {
    pub api: String,
    pub ext: String,
    pub name: String,
    pub bytes: Vec<u8>,
}

pub fn save_opts(sauce: bool, compress: bool) -> SaveOptions {
    let mut o = SaveOptions::new();
    o.save_sauce = sauce;
    o.compress = compress;
    o.lossles_output = true;
    o
}

fn sample_docs() -> Vec<(String, DocD)> {
    let mut rng = Rng::new(0xC02);
    let mut out = Vec::new();
    for (name, w, h, chars, colors, sauce) in [
        ("tiny", 4, 2, Chars::Printable, Colors::Dos, false),
        ("small", 20, 6, Chars::Printable, Colors::Dos, true),
        ("std", 80, 25, Chars::Printable, Colors::Dos, true),
        ("runs", 80, 12, Chars::Small, Colors::Small, false),
        ("full", 40, 8, Chars::FullNoNul, Colors::Ice, true),
        // ice-mode documents of width 80: the only shape the ADF writer accepts (and IDF needs ice mode)
        ("ice80", 80, 9, Chars::Printable, Colors::Ice, true),
        ("ice80tall", 80, 30, Chars::FullNoNul, Colors::Ice, false),
        // PETSCII / ATASCII buffers: the seq and ata writers refuse any other buffer type
        ("petscii", 40, 12, Chars::Printable, Colors::Dos, false),
        ("atascii", 40, 12, Chars::Ascii7, Colors::Dos, false),
    ] {
        let mut d = DocD::single(w, h);
        if name == "petscii" {
            d.buffer_type = 2;
        }
        if name == "atascii" {
            d.buffer_type = 3;
        }
        d.ice = if colors == Colors::Ice { 2 } else { 1 };
        doc::fill_cells(&mut rng, &mut d.layers[0], chars, colors, 0, 1, 85);
        if sauce {
            let mut s = doc::random_sauce(&mut rng);
            if name == "std" {
                s.comments = (0..3).map(|i| format!("comment {i}").into_bytes()).collect();
            }
            d.sauce = Some(s);
        }
        out.push((name.to_string(), d));
    }
    // multi layer + custom font + big palette (icy)
    let mut d = DocD::single(30, 10);
    d.palette_mode = 0;
    d.font_mode = 0;
    d.buffer_type = 0;
    d.palette = Some((0..40).map(|i| (i as u8 * 5, 255 - i as u8, i as u8)).collect());
    d.fonts.push(FontD {
        slot: 0,
        name: "base".into(),
        height: 16,
        builtin: Some(0),
        data: vec![], sauce_name: None,
    });
    d.fonts.push(FontD {
        slot: 3,
        name: "custom".into(),
        height: 16,
        builtin: None,
        data: (0..256 * 16).map(|i| (i * 7) as u8).collect(), sauce_name: None,
    });
    doc::fill_cells(&mut rng, &mut d.layers[0], Chars::Printable, Colors::Palette(40), 0x3FF, 1, 70);
    let mut l2 = LayerD::plain(12, 5);
    l2.title = "über layer ☃".into();
    l2.alpha = true;
    l2.ox = -3;
    l2.oy = 2;
    l2.mode = 1;
    doc::fill_cells(&mut rng, &mut l2, Chars::Unicode, Colors::Palette(40), 0x3FF, 1, 50);
    d.layers.push(l2);
    d.sauce = Some(doc::random_sauce(&mut rng));
    out.push(("layers".to_string(), d.clone()));
    // the same document with an image layer (role Image: a sixel picture) on top - another chunk layout of the .icy loader
    let mut l3 = LayerD::plain(4, 2);
    l3.title = "picture".into();
    l3.image = Some((20, 12, (0..20 * 12 * 4).map(|i| (i * 5) as u8).collect()));
    d.layers.push(l3);
    out.push(("image".to_string(), d));
    out
}

/// (seed, start, end) of the decimal digit runs in the seed files: at most 150 per seed, spread evenly, the first 30
/// (header lines) always. Used by the text-number classes of C02 and C03.
pub fn decimal_runs(seeds: &[Seed]) -> Vec<(usize, usize, usize)> {
    let mut out = Vec::new();
    for (si, s) in seeds.iter().enumerate() {
        let mut runs = Vec::new();
        let mut i = 0;
        while i < s.bytes.len() {
            if s.bytes[i].is_ascii_digit() {
                let a = i;
                while i < s.bytes.len() && s.bytes[i].is_ascii_digit() {
                    i += 1;
                }
                runs.push((si, a, i));
            } else {
                i += 1;
            }
        }
        let n = runs.len();
        for (j, r) in runs.into_iter().enumerate() {
            if j < 30 || n <= 150 || j % (n / 120 + 1) == 0 {
                out.push(r);
            }
        }
    }
    out
}

/// diagnostic: which (document, format) pairs the writers refuse, and why
pub fn corpus_refusals() -> Vec<String> {
    let mut out = Vec::new();
    for (name, d) in sample_docs() {
        let buf = doc::build(&d);
        for ext in BUFFER_EXTS {
            let r = std::panic::catch_unwind(std::panic::AssertUnwindSafe(|| buf.to_bytes(ext, &save_opts(false, true))));
            match r {
                Ok(Ok(b)) if b.len() > 200_000 => out.push(format!("{name}.{ext}: too large ({})", b.len())),
                Ok(Ok(_)) => {}
                Ok(Err(e)) => out.push(format!("{name}.{ext}: refused: {e}")),
                Err(_) => out.push(format!("{name}.{ext}: writer panicked")),
            }
        }
    }
    out
}

pub fn build_corpus() -> Vec<Seed> {
    let mut seeds = Vec::new();
    for (name, d) in sample_docs() {
        let buf = doc::build(&d);
        for ext in BUFFER_EXTS {
            for (sauce, compress) in [(false, true), (true, true), (true, false)] {
                if sauce && d.sauce.is_none() {
                    continue;
                }
                if !compress && !matches!(ext, "xb" | "ans") {
                    continue;
                }
                // writers may refuse (width limits, fonts): that is fine, it is not a loader input then
                let r = std::panic::catch_unwind(std::panic::AssertUnwindSafe(|| buf.to_bytes(ext, &save_opts(sauce, compress))));
                if let Ok(Ok(bytes)) = r {
                    if bytes.len() <= 200_000 {
                        seeds.push(Seed {
                            api: "buf".into(),
                            ext: ext.into(),
                            name: format!("{name}.{ext}{}{}", if sauce { "+sauce" } else { "" }, if compress { "" } else { "+raw" }),
                            bytes,
                        });
                    }
                }
            }
        }
    }
    // a terminal-style ANSI file with sixel, macros, fonts
    seeds.push(Seed {
        api: "buf".into(),
        ext: "ans".into(),
        name: "features.ans".into(),
        bytes: b"\x1b[2J\x1b[1;1H\x1b[1;31mHello\x1b[0m\r\n\x1bPq#1;2;100;0;0#1~~~~-~~~~\x1b\\\x1bP1;0;0!zmacro\x1b\\\x1b[1*z\x1b]8;;http://x\x1b\\link\x1b]8;;\x1b\\\x1b[38;5;200mX\x1b[1;24;12;200tY\r\n".to_vec(),
    });
    // an ANSI file with several sixel pictures: two small ones side by side, a big one over both, one more beside them, and
    // the big one again (the loader hands finished decodes over and drops pictures a newer one covers)
    seeds.push(Seed {
        api: "buf".into(),
        ext: "ans".into(),
        name: "sixels.ans".into(),
        bytes: {
            let small = |col: u8| format!("\x1bPq\"1;1;6;6#{col};2;100;0;0#{col}!6~\x1b\\");
            let big = "\x1bPq\"1;1;40;36#3;2;0;100;0#3!40~-!40~-!40~-!40~-!40~-!40~\x1b\\";
            format!("\x1b[2;2H{}\x1b[2;4H{}\x1b[1;1H{big}\x1b[2;30H{}\x1b[1;1H{big}\x1b[10;1Htext\r\n", small(1), small(2), small(4)).into_bytes()
        },
    });
    // an IcyDraw file whose layer data is cut into a first chunk and a continuation chunk (`LAYER_0~1`): the engine's writer
    // only does that beyond 3 MB of layer data, the loader accepts it at any size. Hand-made inside the PNG frame of the
    // engine's own tiny.icy: a 3x2 layer, row 0 in the first chunk, row 1 in the continuation chunk
    if let Some(frame) = seeds.iter().find(|s| s.name == "tiny.icy").map(|s| s.bytes.clone()) {
        use crate::props::c10::{icy_file, layer_header_fp, long_cell};
        let row = |chars: [u32; 3]| -> Vec<u8> { chars.iter().flat_map(|c| long_cell(*c)).collect() };
        let first = row([0x41, 0x42, 0x43]);
        let mut p = layer_header_fp(b"continued", 3, 2, first.len() as u64, 0);
        p.extend(first);
        let chunks = vec![("LAYER_0".to_string(), p), ("LAYER_0~1".to_string(), row([0x61, 0x62, 0x63]))];
        let bytes = icy_file(&frame, &chunks);
        // only a seed if the loader really takes it as a two-row picture
        if let Ok(b) = Buffer::from_bytes(std::path::Path::new("c.icy"), false, &bytes) {
            use icy_engine::TextPane;
            if b.layers.first().map(|l| l.get_char((2, 1)).ch) == Some('c') {
                seeds.push(Seed { api: "buf".into(), ext: "icy".into(), name: "continued.icy".into(), bytes });
            }
        }
    }
    // the PETSCII (.seq) writer is unimplemented in the engine ("not implemented!"), so this seed is hand-made:
    // colour codes, reverse on/off, cursor keys, clear/home, shifted and unshifted ranges, every byte once
    seeds.push(Seed {
        api: "buf".into(),
        ext: "seq".into(),
        name: "handmade.seq".into(),
        bytes: {
            let mut d = b"\x93\x05HELLO \x1c\x12RED\x92 \x9f\x0ecyan\x8e\r\x11\x11\x1d\x1d\x9eYEL\x9d\x9d\x91\x13\x0d".to_vec();
            d.extend(0u8..=255);
            d.extend((0u8..=255).rev());
            d
        },
    });
    // fonts
    for (name, data) in [("cp437.psf", icy_engine::CP437), ("cp866.psf", icy_engine::CP866)] {
        seeds.push(Seed {
            api: "font".into(),
            ext: "psf".into(),
            name: name.into(),
            bytes: data.to_vec(),
        });
    }
    if let Ok(f) = BitFont::from_ansi_font_page(1) {
        seeds.push(Seed {
            api: "font".into(),
            ext: "f16".into(),
            name: "raw.f16".into(),
            bytes: f.convert_to_u8_data(),
        });
        if let Ok(p) = f.to_psf2_bytes() {
            seeds.push(Seed {
                api: "font".into(),
                ext: "psf".into(),
                name: "psf2.psf".into(),
                bytes: p,
            });
        }
    }
    seeds.push(Seed {
        api: "font".into(),
        ext: "psf".into(),
        name: "psf1-512.psf".into(),
        bytes: {
            let mut d = vec![0x36, 0x04, 0x01, 8];
            d.extend((0..512 * 8).map(|i| i as u8));
            d
        },
    });
    seeds.push(Seed {
        api: "tdf".into(),
        ext: "tdf".into(),
        name: "CODERX.TDF".into(),
        bytes: TDF_FONT.to_vec(),
    });
    if let Ok(fonts) = TheDrawFont::from_tdf_bytes(TDF_FONT) {
        if let Some(f) = fonts.first() {
            if let Ok(b) = f.as_tdf_bytes() {
                seeds.push(Seed {
                    api: "tdf".into(),
                    ext: "tdf".into(),
                    name: "single.tdf".into(),
                    bytes: b,
                });
            }
        }
    }
    // the smallest fonts the writer produces: no glyph at all / one glyph (the whole file is header and tables)
    for (ty, tname) in [(icy_engine::FontType::Outline, "outline"), (icy_engine::FontType::Block, "block"), (icy_engine::FontType::Color, "colour")] {
        for glyphs in 0..2 {
            let mut f = TheDrawFont::new("ABCDEFGHIJKL", ty, 1);
            if glyphs == 1 {
                f.set_glyph('A', icy_engine::FontGlyph { size: icy_engine::Size::new(2, 1), data: if matches!(ty, icy_engine::FontType::Color) { vec![b'X', 0x1F, b'Y', 0x2E] } else { vec![b'X', b'Y'] } });
            }
            if let Ok(b) = f.as_tdf_bytes() {
                seeds.push(Seed {
                    api: "tdf".into(),
                    ext: "tdf".into(),
                    name: format!("tiny-{tname}-{glyphs}.tdf"),
                    bytes: b,
                });
            }
        }
    }
    // palettes
    let mut pal = Palette::dos_default();
    pal.title = "Title".into();
    pal.author = "Author".into();
    pal.description = "Descr".into();
    for (fmt, name, ext) in pal_formats() {
        seeds.push(Seed {
            api: format!("pal:{name}"),
            ext: ext.into(),
            name: format!("dos.{ext}"),
            bytes: pal.export_palette(&fmt),
        });
    }
    // sauce-only inputs
    seeds.push(Seed {
        api: "sauce".into(),
        ext: "".into(),
        name: "record-only".into(),
        bytes: {
            let mut v = Vec::new();
            let d = DocD::single(80, 25);
            let mut buf = doc::build(&d);
            let mut r = Rng::new(7);
            buf.set_sauce(Some(doc::make_sauce(&doc::random_sauce(&mut r), icy_engine::Size::new(80, 25))), false);
            let _ = buf.write_sauce_info(icy_engine::SauceFileType::Ansi, &mut v);
            v
        },
    });
    seeds
}

pub fn pal_formats() -> Vec<(PaletteFormat, &'static str, &'static str)> {
    vec![
        (PaletteFormat::Hex, "hex", "hex"),
        (PaletteFormat::Pal, "pal", "pal"),
        (PaletteFormat::Gpl, "gpl", "gpl"),
        (PaletteFormat::Ice, "ice", "ice.txt"),
        (PaletteFormat::Txt, "txt", "txt"),
    ]
}

fn pal_format_by_name(name: &str) -> Option<PaletteFormat> {
    if name == "ase" {
        // only reached by the stored witness of the known finding (Ase import is a literal todo!())
        return Some(PaletteFormat::Ase);
    }
    pal_formats().into_iter().find(|(_, n, _)| *n == name).map(|(f, _, _)| f)
}

#[derive(Debug, Default, Clone)]
pub struct LoadObs {
    pub ok: bool,
    pub err: bool,
    pub size: Option<(i32, i32)>,
    pub layers: usize,
}

/// run one load under the monitors
pub fn run_load(case: &LoadCase, budgets: Budgets) -> (Outcome<LoadObs>, Measure) {
    let (out, m) = guarded(budgets, || {
        let mut obs = LoadObs::default();
        match case.api.as_str() {
            "buf" => {
                let name = PathBuf::from(format!("x.{}", case.ext));
                match Buffer::from_bytes(&name, false, &case.bytes) {
                    Ok(mut b) => {
                        obs.ok = true;
                        obs.size = Some(doc::buffer_dims(&b));
                        obs.layers = b.layers.len();
                        b.sixel_threads.clear();
                    }
                    Err(_) => obs.err = true,
                }
            }
            "sauce" => match SauceData::extract(&case.bytes) {
                Ok(Some(s)) => {
                    obs.ok = true;
                    obs.size = Some((s.buffer_size.width, s.buffer_size.height));
                }
                Ok(None) => obs.ok = true,
                Err(_) => obs.err = true,
            },
            "font" => match BitFont::from_bytes("f", &case.bytes) {
                Ok(f) => {
                    obs.ok = true;
                    obs.size = Some((f.size.width, f.size.height));
                }
                Err(_) => obs.err = true,
            },
            "tdf" => match TheDrawFont::from_tdf_bytes(&case.bytes) {
                Ok(f) => {
                    obs.ok = true;
                    obs.layers = f.len();
                }
                Err(_) => obs.err = true,
            },
            api if api.starts_with("pal:") => {
                if let Some(fmt) = pal_format_by_name(&api[4..]) {
                    match Palette::load_palette(&fmt, &case.bytes) {
                        Ok(p) => {
                            obs.ok = true;
                            obs.layers = p.len();
                        }
                        Err(_) => obs.err = true,
                    }
                }
            }
            api if api.starts_with("palfile") => {
                let name = PathBuf::from(format!("x.{}", case.ext));
                match Palette::import_palette(&name, &case.bytes) {
                    Ok(p) => {
                        obs.ok = true;
                        obs.layers = p.len();
                    }
                    Err(_) => obs.err = true,
                }
            }
            _ => {}
        }
        obs
    });
    let _ = crate::stream::wait_decodes_idle();
    (out, m)
}

// ---------------------------------------------------------------- PNG / IcyDraw structure-aware mutation

pub struct PngChunk {
    pub kind: [u8; 4],
    pub data: Vec<u8>,
}

pub fn png_split(bytes: &[u8]) -> Option<Vec<PngChunk>> {
    if bytes.len() < 8 || &bytes[..8] != b"\x89PNG\r\n\x1a\n" {
        return None;
    }
    let mut o = 8;
    let mut out = Vec::new();
    while o + 12 <= bytes.len() {
        let len = u32::from_be_bytes(bytes[o..o + 4].try_into().ok()?) as usize;
        let kind: [u8; 4] = bytes[o + 4..o + 8].try_into().ok()?;
        if o + 12 + len > bytes.len() {
            return None;
        }
        out.push(PngChunk {
            kind,
            data: bytes[o + 8..o + 8 + len].to_vec(),
        });
        o += 12 + len;
    }
    Some(out)
}

pub fn png_join(chunks: &[PngChunk]) -> Vec<u8> {
    let mut out = b"\x89PNG\r\n\x1a\n".to_vec();
    for c in chunks {
        out.extend((c.data.len() as u32).to_be_bytes());
        let mut body = c.kind.to_vec();
        body.extend_from_slice(&c.data);
        let crc = icy_engine::get_crc32(&body);
        out.extend(body);
        out.extend(crc.to_be_bytes());
    }
    out
}

/// (keyword, decoded payload) of a zTXt chunk written by the IcyDraw writer
pub fn ztxt_decode(c: &PngChunk) -> Option<(String, Vec<u8>)> {
    use base64::Engine;
    use std::io::Read;
    if &c.kind != b"zTXt" {
        return None;
    }
    let nul = c.data.iter().position(|b| *b == 0)?;
    let keyword = String::from_utf8_lossy(&c.data[..nul]).to_string();
    let comp = c.data.get(nul + 2..)?;
    let mut text = Vec::new();
    flate2::read::ZlibDecoder::new(comp).read_to_end(&mut text).ok()?;
    let payload = base64::engine::general_purpose::STANDARD.decode(&text).ok()?;
    Some((keyword, payload))
}

pub fn ztxt_encode(keyword: &str, payload: &[u8]) -> PngChunk {
    use base64::Engine;
    use std::io::Write;
    let text = base64::engine::general_purpose::STANDARD.encode(payload);
    let mut enc = flate2::write::ZlibEncoder::new(Vec::new(), flate2::Compression::fast());
    let _ = enc.write_all(text.as_bytes());
    let comp = enc.finish().unwrap_or_default();
    let mut data = keyword.as_bytes().to_vec();
    data.push(0);
    data.push(0);
    data.extend(comp);
    PngChunk { kind: *b"zTXt", data }
}

/// mutate the payload of one or more IcyDraw chunks and re-encode a valid PNG around it
pub fn mutate_icy(rng: &mut Rng, bytes: &[u8]) -> Option<(Vec<u8>, String)> {
    let mut chunks = png_split(bytes)?;
    let idxs: Vec<usize> = chunks.iter().enumerate().filter(|(_, c)| &c.kind == b"zTXt").map(|(i, _)| i).collect();
    if idxs.is_empty() {
        return None;
    }
    let mut what = String::new();
    let n = 1 + rng.usize(2);
    for _ in 0..n {
        let ci = *rng.pick(&idxs);
        let (kw, mut payload) = ztxt_decode(&chunks[ci])?;
        let mut new_kw = kw.clone();
        match rng.usize(12) {
            0 => {
                let l = rng.usize(payload.len() + 1);
                payload.truncate(l);
                what.push_str(&format!("{kw}:truncate({l}) "));
            }
            1 | 2 | 3 => {
                // u32/u16 field extreme at a random offset (headers are at the front)
                if !payload.is_empty() {
                    let o = rng.usize(payload.len().min(96));
                    let v: u32 = *rng.pick(&[0u32, 1, 0x7F, 0x80, 0xFF, 0x100, 0x7FFF, 0xFFFF, 0x10000, 0x7FFF_FFFF, 0x8000_0000, 0xFFFF_FFFF, 0xD800]);
                    let w = if rng.bool() { 4 } else { 2 };
                    for (i, b) in v.to_le_bytes().iter().take(w).enumerate() {
                        if o + i < payload.len() {
                            payload[o + i] = *b;
                        }
                    }
                    what.push_str(&format!("{kw}:field@{o}={v:#x} "));
                }
            }
            4 | 5 => {
                if !payload.is_empty() {
                    let o = rng.usize(payload.len());
                    payload[o] = rng.byte();
                    what.push_str(&format!("{kw}:byte@{o} "));
                }
            }
            6 => {
                let extra = rng.usize(40);
                payload.extend(rng.bytes(extra));
                what.push_str(&format!("{kw}:append({extra}) "));
            }
            7 => {
                new_kw = rng.pick(&["LAYER_0~1", "LAYER_9", "LAYER_1~1", "FONT_0", "FONT_99999", "FONT_x", "ICED", "PALETTE", "SAUCE", "END", "LAYER_", "LAYER_0~x"]).to_string();
                what.push_str(&format!("{kw}:rename({new_kw}) "));
            }
            8 => {
                // cell record area: plant long-form cells with extreme char values
                if payload.len() > 60 {
                    let o = 40 + rng.usize(payload.len() - 58);
                    let attr: u16 = *rng.pick(&[0u16, 0x4000, 0x8000, 0xC000, 0x0001]);
                    payload[o..o + 2].copy_from_slice(&attr.to_le_bytes());
                    let ch: u32 = *rng.pick(&[0xD800u32, 0xDFFF, 0x110000, 0xFFFF_FFFF, 0x41]);
                    payload[o + 2..o + 6].copy_from_slice(&ch.to_le_bytes());
                    what.push_str(&format!("{kw}:cell@{o} attr={attr:#x} ch={ch:#x} "));
                }
            }
            9 => {
                // duplicate the chunk (continuation for a layer that exists / does not exist)
                let dup = ztxt_encode(&format!("{kw}~1"), &payload);
                chunks.insert(ci + 1, dup);
                what.push_str(&format!("{kw}:dup~1 "));
                continue;
            }
            10 => {
                // invalid utf-8 in the leading string
                if payload.len() > 8 {
                    payload[4] = 0xFF;
                    payload[5] = 0xC0;
                    what.push_str(&format!("{kw}:bad-utf8 "));
                }
            }
            _ => {
                chunks.remove(ci);
                what.push_str(&format!("{kw}:remove "));
                return Some((png_join(&chunks), what));
            }
        }
        chunks[ci] = ztxt_encode(&new_kw, &payload);
    }
    Some((png_join(&chunks), what))
}

/// generic byte-level mutation
pub fn mutate_bytes(rng: &mut Rng, seed: &[u8], other: &[u8]) -> (Vec<u8>, String) {
    let mut v = seed.to_vec();
    match rng.usize(9) {
        0 => {
            let n = 1 + rng.usize(8);
            for _ in 0..n {
                if v.is_empty() {
                    break;
                }
                let i = rng.usize(v.len());
                v[i] = rng.byte();
            }
            (v, format!("random-bytes({n})"))
        }
        1 | 2 => {
            // LE field extreme, biased to the header and the SAUCE tail
            if v.len() >= 4 {
                let o = match rng.usize(3) {
                    0 => rng.usize(v.len().min(64)),
                    1 => v.len() - 1 - rng.usize(v.len().min(140)),
                    _ => rng.usize(v.len()),
                };
                let val: u32 = *rng.pick(&[0u32, 1, 0x7F, 0x80, 0xFF, 0x100, 0x7FFF, 0x8000, 0xFFFF, 0x10000, 0x7FFF_FFFF, 0xFFFF_FFFF]);
                let w = *rng.pick(&[1usize, 2, 2, 4]);
                for (i, b) in val.to_le_bytes().iter().take(w).enumerate() {
                    if o + i < v.len() {
                        v[o + i] = *b;
                    }
                }
                return (v, format!("field@{o}/{w}={val:#x}"));
            }
            (v, "nop".into())
        }
        3 => {
            // splice of two files
            let a = rng.usize(v.len() + 1);
            let b = rng.usize(other.len() + 1);
            v.truncate(a);
            v.extend_from_slice(&other[b..]);
            (v, format!("splice({a},{b})"))
        }
        4 => {
            let i = rng.usize(v.len() + 1);
            let n = 1 + rng.usize(16);
            let ins = rng.bytes(n);
            v.splice(i..i, ins);
            (v, format!("insert@{i}({n})"))
        }
        5 => {
            if !v.is_empty() {
                let i = rng.usize(v.len());
                let n = (1 + rng.usize(32)).min(v.len() - i);
                v.drain(i..i + n);
                return (v, format!("delete@{i}({n})"));
            }
            (v, "nop".into())
        }
        6 => {
            // repeat a block
            if !v.is_empty() {
                let i = rng.usize(v.len());
                let n = (1 + rng.usize(64)).min(v.len() - i);
                let block = v[i..i + n].to_vec();
                for _ in 0..(1 + rng.usize(20)) {
                    v.splice(i..i, block.clone());
                }
                return (v, format!("repeat@{i}({n})"));
            }
            (v, "nop".into())
        }
        7 => {
            let n = rng.usize(300);
            (rng.bytes(n), format!("pure-random({n})"))
        }
        _ => {
            // keep the magic, randomise the rest
            let keep = rng.usize(v.len().min(16) + 1);
            for b in v.iter_mut().skip(keep) {
                if rng.chance(1, 8) {
                    *b = rng.byte();
                }
            }
            (v, format!("noise-after({keep})"))
        }
    }
}

/// a 128-byte SAUCE record (plus optional comment block) built from field extremes
pub fn sauce_tail(rng: &mut Rng) -> Vec<u8> {
    let mut rec = Vec::new();
    let n_comments: u8 = *rng.pick(&[0u8, 0, 1, 2, 5, 100, 255]);
    let with_block = rng.chance(2, 3);
    if rng.chance(3, 4) {
        rec.push(0x1A);
    }
    if with_block && n_comments > 0 {
        let declared = if rng.chance(1, 5) { rng.usize(n_comments as usize + 1) } else { n_comments as usize };
        if rng.chance(9, 10) {
            rec.extend_from_slice(b"COMNT");
        } else {
            rec.extend_from_slice(b"COMNX");
        }
        for i in 0..declared {
            let mut line = format!("comment line {i}").into_bytes();
            line.resize(64, if rng.bool() { b' ' } else { 0 });
            rec.extend(line);
        }
    }
    rec.extend_from_slice(b"SAUCE");
    rec.extend_from_slice(rng.pick(&["00", "00", "00", "01", "\0\0", "99"]).as_bytes());
    let field = |rng: &mut Rng, n: usize| -> Vec<u8> {
        match rng.usize(5) {
            0 => vec![b' '; n],
            1 => vec![0; n],
            2 => rng.bytes(n),
            3 => (0..n).map(|i| b'A' + (i % 26) as u8).collect(),
            _ => {
                let mut v: Vec<u8> = b"Title".to_vec();
                v.resize(n, b' ');
                v
            }
        }
    };
    rec.extend(field(rng, 35));
    rec.extend(field(rng, 20));
    rec.extend(field(rng, 20));
    rec.extend_from_slice(rng.pick(&["20240101", "19991231", "00000000", "99999999", "2024ABCD", "\0\0\0\0\0\0\0\0", "20241301"]).as_bytes());
    rec.extend(rng.pick(&[0u32, 1, 1000, 0xFFFF_FFFF]).to_le_bytes()); // file size
    rec.push(*rng.pick(&[0u8, 1, 1, 1, 5, 6, 2, 8, 9, 255])); // data type
    rec.push(*rng.pick(&[0u8, 1, 1, 2, 3, 4, 5, 8, 255])); // file type
    for _ in 0..4 {
        rec.extend(rng.pick(&[0u16, 1, 80, 25, 132, 1000, 1001, 0x7FFF, 0xFFFF]).to_le_bytes()); // tinfo1-4
    }
    rec.push(n_comments);
    rec.push(rng.byte()); // flags
    let mut tinfos = match rng.usize(4) {
        0 => b"IBM VGA".to_vec(),
        1 => b"Amiga Topaz 1".to_vec(),
        2 => rng.bytes(22),
        _ => vec![],
    };
    tinfos.resize(22, 0);
    rec.extend(tinfos);
    rec
}
