//! C05 — binary art formats reproduce what was saved.
use std::path::Path;

use icy_engine::{Buffer, IceMode, TextPane};
use serde::{Deserialize, Serialize};
use serde_json::{json, Value};

use crate::ctx::Ctx;
use crate::doc::{self, CellD, Chars, Colors, DocD, FontD};
use crate::files::{self, save_opts};
use crate::mon::{guarded, Budgets, Outcome};
use crate::picture;
use crate::rng::Rng;
use crate::Prop;

const FMTS: [&str; 5] = ["xb", "bin", "adf", "idf", "tnd"];

#[derive(Clone, Debug, Serialize, Deserialize)]
pub enum Case05 {
    /// save a generated document and load it again
    Doc { ext: String, doc: DocD, compress: bool, sauce: bool },
    /// load bytes, save, load: same picture as the first load
    Resave { ext: String, bytes: Vec<u8>, origin: String },
}

fn load(ext: &str, bytes: &[u8]) -> Result<Buffer, String> {
    Buffer::from_bytes(Path::new(&format!("f.{ext}")), false, bytes).map_err(|e| e.to_string())
}

fn font_bytes(b: &Buffer, slot: usize) -> Option<(i32, Vec<u8>)> {
    b.get_font(slot).map(|f| (f.size.height, f.convert_to_u8_data()))
}

/// what the engine-loaded buffer must agree with the source on
fn compare(ext: &str, src: &Buffer, got: &Buffer, check_fonts: bool) -> Option<(String, Value)> {
    if got.get_width() != src.get_width() || got.get_height() != src.get_height() {
        let cls = if src.get_height() < 25 { "height<25" } else if src.get_height() == 25 { "height=25" } else { "height>25" };
        return Some((
            format!("{ext}|size|{}|{cls}", if got.get_width() != src.get_width() { "width" } else { "height" }),
            json!({"saved": [src.get_width(), src.get_height()], "loaded": [got.get_width(), got.get_height()]}),
        ));
    }
    let src_ice = matches!(src.ice_mode, IceMode::Ice);
    let got_ice = matches!(got.ice_mode, IceMode::Ice);
    if matches!(ext, "xb") && src_ice != got_ice {
        return Some((format!("{ext}|ice-mode"), json!({"saved": format!("{:?}", src.ice_mode), "loaded": format!("{:?}", got.ice_mode)})));
    }
    if let Some((x, y, field, a, b)) = picture::first_difference(src, got, src.get_width(), src.get_height()) {
        let c = src.get_char((x, y));
        let chclass = match c.ch as u32 {
            0 => "char-0",
            1..=6 => "char-1..6",
            7..=31 => "char-7..31",
            255 => "char-255",
            _ => "char-other",
        };
        return Some((
            format!("{ext}|cell|{field}|{chclass}|{}", picture::glyph_class(src, &c)),
            json!({"x": x, "y": y, "saved_cell": doc::describe_cell(&c), "loaded_cell": doc::describe_cell(&got.get_char((x, y))), "saved_shows": format!("{a:?}"), "loaded_shows": format!("{b:?}")}),
        ));
    }
    // documents whose fonts sit in other slots than 0 / 1 are compared by what every cell shows (above) only: a file stores
    // a first and a second font, not slot numbers
    let plain_slots = (0..src.get_height()).all(|y| (0..src.get_width()).all(|x| src.get_char((x, y)).get_font_page() <= 1));
    if !plain_slots {
        // a single-font picture whose font sits in a higher slot: the file's font (loaded into slot 0) is the font the cells
        // use, not whatever slot 0 held
        let mut pages: Vec<usize> = Vec::new();
        for y in 0..src.get_height() {
            for x in 0..src.get_width() {
                let p = src.get_char((x, y)).get_font_page();
                if !pages.contains(&p) {
                    pages.push(p);
                }
            }
        }
        if check_fonts && pages.len() == 1 && matches!(ext, "xb" | "adf" | "idf") {
            let (a, b) = (font_bytes(src, pages[0]), font_bytes(got, 0));
            let stock = src.get_font(pages[0]).map(|f| f.is_default()).unwrap_or(false);
            if a.is_some() && a != b && !(ext == "xb" && stock) {
                return Some((format!("{ext}|font-glyphs|moved-single-font"), json!({"page": pages[0], "saved_height": a.map(|x| x.0), "loaded_height": b.map(|x| x.0)})));
            }
        }
        return None;
    }
    // font page of every cell (XBin 512-character mode)
    if ext == "xb" {
        for y in 0..src.get_height() {
            for x in 0..src.get_width() {
                let (a, b) = (src.get_char((x, y)), got.get_char((x, y)));
                if src.font_count() > 1 && two_pages_used(src) && a.get_font_page() != b.get_font_page() {
                    return Some((format!("{ext}|cell|font-page"), json!({"x": x, "y": y, "saved": a.get_font_page(), "loaded": b.get_font_page()})));
                }
            }
        }
    }
    if check_fonts && matches!(ext, "xb" | "adf" | "idf") {
        let uses_page1 = (0..src.get_height()).any(|y| (0..src.get_width()).any(|x| src.get_char((x, y)).get_font_page() == 1));
        let uses_page0 = (0..src.get_height()).any(|y| (0..src.get_width()).any(|x| src.get_char((x, y)).get_font_page() == 0));
        for slot in 0..src.font_count().min(2) {
            // a file stores the fonts its cells use
            if (slot == 1 && !(uses_page1 && uses_page0)) || (slot == 0 && !uses_page0) {
                continue;
            }
            let (a, b) = (font_bytes(src, slot), font_bytes(got, slot));
            if ext == "xb" && src.font_count() == 1 && src.get_font(0).map(|f| f.is_default()).unwrap_or(false) {
                continue;
            }
            if a != b {
                return Some((format!("{ext}|font-glyphs|slot{slot}"), json!({"saved_height": a.map(|x| x.0), "loaded_height": b.map(|x| x.0)})));
            }
        }
    }
    // palette of the 16 colours (formats that embed it)
    if matches!(ext, "xb" | "adf" | "idf") {
        for i in 0..16u32 {
            let a = src.palette.get_rgb(i);
            let b = got.palette.get_rgb(i);
            // six-bit precision
            let q = |c: (u8, u8, u8)| (c.0 >> 2, c.1 >> 2, c.2 >> 2);
            if q(a) != q(b) {
                return Some((format!("{ext}|palette"), json!({"index": i, "saved": a, "loaded": b})));
            }
        }
    }
    None
}

fn two_pages_used(src: &Buffer) -> bool {
    let mut seen = [false; 2];
    for y in 0..src.get_height() {
        for x in 0..src.get_width() {
            let p = src.get_char((x, y)).get_font_page();
            if p < 2 {
                seen[p] = true;
            }
        }
    }
    seen[0] && seen[1]
}

// ---- independent reference decoders (second opinion: writer bug or loader bug?)

/// returns rows of (char, displayed fg rgb, displayed bg rgb)
fn ref_decode(ext: &str, bytes: &[u8], src: &Buffer) -> Result<Vec<Vec<(u8, (u8, u8, u8), (u8, u8, u8))>>, String> {
    let w = src.get_width() as usize;
    let attr_cell = |ch: u8, attr: u8, pal: &dyn Fn(u8) -> (u8, u8, u8)| (ch, pal(attr & 0x0F), pal(attr >> 4));
    match ext {
        "bin" => {
            let n = bytes.len() / 2;
            let pal = |i: u8| src.palette.get_rgb(i as u32);
            // without ice colours bit 7 of the attribute is blink, not background intensity
            let ice = matches!(src.ice_mode, IceMode::Ice);
            let cells: Vec<_> = (0..n).map(|i| attr_cell(bytes[2 * i], if ice { bytes[2 * i + 1] } else { bytes[2 * i + 1] & 0x7F }, &pal)).collect();
            Ok(cells.chunks(w).map(|c| c.to_vec()).collect())
        }
        "adf" => {
            if bytes.len() < 1 + 192 + 4096 {
                return Err("short".into());
            }
            const EGA: [usize; 16] = [0, 1, 2, 3, 4, 5, 20, 7, 56, 57, 58, 59, 60, 61, 62, 63];
            let p = &bytes[1..193];
            let pal = |i: u8| {
                let o = EGA[i as usize] * 3;
                let e = |v: u8| v << 2 | v >> 4;
                (e(p[o]), e(p[o + 1]), e(p[o + 2]))
            };
            let d = &bytes[1 + 192 + 4096..];
            let cells: Vec<_> = (0..d.len() / 2).map(|i| attr_cell(d[2 * i], d[2 * i + 1], &pal)).collect();
            Ok(cells.chunks(80).map(|c| c.to_vec()).collect())
        }
        "idf" => {
            if bytes.len() < 12 + 4096 + 48 {
                return Err("short".into());
            }
            let x2 = u16::from_le_bytes([bytes[8], bytes[9]]) as usize;
            let width = x2 + 1;
            let p = &bytes[bytes.len() - 48..];
            let pal = |i: u8| {
                let o = i as usize * 3;
                let e = |v: u8| v << 2 | v >> 4;
                (e(p[o]), e(p[o + 1]), e(p[o + 2]))
            };
            let d = &bytes[12..bytes.len() - 48 - 4096];
            let mut cells = Vec::new();
            let mut o = 0;
            while o + 1 < d.len() {
                let (mut ch, mut at, mut n) = (d[o], d[o + 1], 1usize);
                o += 2;
                if ch == 1 && at == 0 {
                    if o + 3 >= d.len() + 0 && o + 4 > d.len() {
                        break;
                    }
                    n = u16::from_le_bytes([d[o], d[o + 1]]) as usize;
                    ch = d[o + 2];
                    at = d[o + 3];
                    o += 4;
                }
                for _ in 0..n {
                    cells.push(attr_cell(ch, at, &pal));
                }
            }
            Ok(cells.chunks(width).map(|c| c.to_vec()).collect())
        }
        "tnd" => {
            if bytes.len() < 9 || bytes[0] != 24 || &bytes[1..9] != b"TUNDRA24" {
                return Err("bad header".into());
            }
            let mut o = 9;
            let (mut fg, mut bg) = ((0u8, 0u8, 0u8), (0u8, 0u8, 0u8));
            let mut rows: Vec<Vec<(u8, (u8, u8, u8), (u8, u8, u8))>> = Vec::new();
            let (mut x, mut y) = (0usize, 0usize);
            let put = |rows: &mut Vec<Vec<_>>, x: &mut usize, y: &mut usize, ch: u8, fg, bg| {
                while rows.len() <= *y {
                    rows.push(vec![(0u8, (0, 0, 0), (0, 0, 0)); w]);
                }
                if *x < w {
                    rows[*y][*x] = (ch, fg, bg);
                }
                *x += 1;
                if *x >= w {
                    *x = 0;
                    *y += 1;
                }
            };
            while o < bytes.len() {
                let c = bytes[o];
                o += 1;
                match c {
                    1 => {
                        if o + 8 > bytes.len() {
                            return Err("truncated position".into());
                        }
                        y = u32::from_be_bytes(bytes[o..o + 4].try_into().unwrap()) as usize;
                        x = u32::from_be_bytes(bytes[o + 4..o + 8].try_into().unwrap()) as usize;
                        o += 8;
                    }
                    2 | 4 | 6 => {
                        let need = 1 + if c & 2 != 0 { 4 } else { 0 } + if c & 4 != 0 { 4 } else { 0 };
                        if o + need > bytes.len() {
                            return Err("truncated colour record".into());
                        }
                        let ch = bytes[o];
                        o += 1;
                        if c & 2 != 0 {
                            fg = (bytes[o + 1], bytes[o + 2], bytes[o + 3]);
                            o += 4;
                        }
                        if c & 4 != 0 {
                            bg = (bytes[o + 1], bytes[o + 2], bytes[o + 3]);
                            o += 4;
                        }
                        put(&mut rows, &mut x, &mut y, ch, fg, bg);
                    }
                    ch => put(&mut rows, &mut x, &mut y, ch, fg, bg),
                }
            }
            Ok(rows)
        }
        _ => Err("no reference decoder".into()),
    }
}

fn ref_check(ext: &str, bytes: &[u8], src: &Buffer) -> Option<(String, Value)> {
    let rows = match ref_decode(ext, bytes, src) {
        Ok(r) => r,
        Err(e) if e == "no reference decoder" => return None,
        Err(e) => return Some((format!("{ext}|writer|reference-decoder-rejects"), json!({"why": e}))),
    };
    for y in 0..src.get_height() {
        for x in 0..src.get_width() {
            let c = src.get_char((x, y));
            let c = if c.is_visible() { c } else { icy_engine::AttributedChar::default() };
            let Some(r) = rows.get(y as usize).and_then(|r| r.get(x as usize)) else {
                return Some((format!("{ext}|writer|cell-missing-in-file"), json!({"x": x, "y": y, "rows_in_file": rows.len()})));
            };
            let s = picture::shown(src, &c);
            let fgc = picture::displayed_fg(src, &c);
            let bgc = src.palette.get_rgb(c.attribute.get_background());
            let q = |c: (u8, u8, u8)| if ext == "tnd" || ext == "bin" { c } else { (c.0 >> 2, c.1 >> 2, c.2 >> 2) };
            let mut field = None;
            if r.0 as u32 != c.ch as u32 {
                field = Some("char");
            } else if s.fg.is_some() && q(r.1) != q(fgc) {
                field = Some("foreground");
            } else if s.bg.is_some() && q(r.2) != q(bgc) {
                field = Some("background");
            }
            if let Some(f) = field {
                let chclass = match c.ch as u32 {
                    1..=6 => "char-1..6",
                    _ => "char-other",
                };
                return Some((
                    format!("{ext}|writer|{f}|{chclass}"),
                    json!({"x": x, "y": y, "saved_cell": doc::describe_cell(&c), "file_has": format!("{r:?}"), "expected_fg": fgc, "expected_bg": bgc}),
                ));
            }
        }
    }
    None
}

fn run(case: &Case05) -> Option<(String, Value)> {
    match case {
        Case05::Doc { ext, doc: d, compress, sauce } => {
            let src = doc::build(d);
            let bytes = match src.to_bytes(ext, &save_opts(*sauce, *compress)) {
                Ok(b) => b,
                Err(e) => return Some((format!("{ext}|save-error"), json!({"error": e.to_string(), "size": [d.w, d.h]}))),
            };
            // writer side, by the reference decoder (content without the SAUCE trailer)
            let content_len = match icy_engine::SauceData::extract(&bytes) {
                Ok(Some(s)) if *sauce => bytes.len() - s.sauce_header_len,
                _ => bytes.len(),
            };
            if let Some(v) = ref_check(ext, &bytes[..content_len], &src) {
                return Some(v);
            }
            let got = match load(ext, &bytes) {
                Ok(b) => b,
                Err(e) => return Some((format!("{ext}|load-error"), json!({"error": e}))),
            };
            if let Some(v) = compare(ext, &src, &got, true) {
                return Some(v);
            }
            // and the loaded document must be stable under saving again
            let again = match got.to_bytes(ext, &save_opts(*sauce, *compress)) {
                Ok(b) => b,
                Err(e) => return Some((format!("{ext}|resave-error"), json!({"error": e.to_string()}))),
            };
            match load(ext, &again) {
                Ok(g2) => compare(ext, &got, &g2, true).map(|(k, d)| (format!("resave|{k}"), d)),
                Err(e) => Some((format!("{ext}|reload-error"), json!({"error": e}))),
            }
        }
        Case05::Resave { ext, bytes, .. } => {
            let Ok(first) = load(ext, bytes) else {
                return None;
            };
            // a picture the format cannot hold at all is not in the quantifier ("accepted by the loader" and saveable)
            if first.get_width() <= 0 || first.get_height() <= 0 || first.get_height() > 2000 || first.get_width() > 4096 {
                return None;
            }
            let had_sauce = first.has_sauce();
            let with_sauce = had_sauce || matches!(ext.as_str(), "bin" | "tnd");
            let mut again = match first.to_bytes(ext, &save_opts(with_sauce, true)) {
                Ok(b) => b,
                Err(_) => return None,
            };
            // SAUCE is defined by position: a file whose last 128 bytes begin with "SAUCE00" carries a record. When the
            // picture's own data ends like that (a font whose glyph bytes spell a record: first seen with a file that had
            // garbage behind its SAUCE), saving without a record yields a file no reader can tell from one with a record.
            // Such a picture has to be saved with its record (C11 then guarantees the exact cut); the check does so.
            if !with_sauce && matches!(icy_engine::SauceData::extract(&again), Ok(Some(_))) {
                again = match first.to_bytes(ext, &save_opts(true, true)) {
                    Ok(b) => b,
                    Err(_) => return None,
                };
            }
            if let Some(p) = std::env::var_os("VERIF_DUMP") {
                let _ = std::fs::write(p, &again);
            }
            match load(ext, &again) {
                Ok(second) => compare(ext, &first, &second, true).map(|(k, d)| (format!("resave-foreign|{k}"), d)),
                Err(e) => Some((format!("{ext}|resave-foreign|reload-error"), json!({"error": e}))),
            }
        }
    }
}

fn gen_doc(rng: &mut Rng, ext: &str) -> (DocD, bool) {
    let (w, h) = match ext {
        "xb" => (
            match rng.usize(6) {
                0 => *rng.pick(&[1, 2, 63, 64, 65, 80, 160, 4096]),
                1 => rng.range(1, 4096) as i32,
                _ => rng.range(1, 100) as i32,
            },
            match rng.usize(4) {
                0 => *rng.pick(&[1, 24, 25, 26, 200]),
                _ => rng.range(1, 40) as i32,
            },
        ),
        "bin" => {
            let hi = if rng.chance(1, 4) { 255 } else { 60 };
            (2 * rng.range(1, hi) as i32, rng.range(1, 30) as i32)
        }
        "adf" => (80, *rng.pick(&[1, 2, 10, 24, 25, 26, 30, 60])),
        "idf" => (if rng.chance(2, 3) { 80 } else { rng.range(1, 80) as i32 }, *rng.pick(&[1, 2, 10, 24, 25, 26, 30, 200])),
        _ => (if rng.bool() { 80 } else { rng.range(1, 160) as i32 }, rng.range(1, 30) as i32),
    };
    // keep huge XBin pictures sparse in cells
    let h = if w > 500 { h.min(3) } else { h };
    let mut d = DocD::single(w, h);
    let ice = match ext {
        "adf" | "idf" => true,
        "tnd" => true,
        _ => rng.bool(),
    };
    d.ice = if ice { 2 } else { 1 };
    let two_fonts = ext == "xb" && rng.chance(1, 3);
    if ext == "xb" {
        d.font_mode = if two_fonts { 3 } else { 2 };
        d.palette_mode = if two_fonts { 2 } else { 3 };
        if rng.chance(1, 2) || two_fonts {
            let fh = if rng.bool() { 16 } else { 1 + rng.usize(32) as u8 };
            d.fonts.push(FontD { slot: 0, name: "custom".into(), height: fh, builtin: None, data: rng.bytes(256 * fh as usize), sauce_name: None });
            if two_fonts {
                d.fonts.push(FontD { slot: 1, name: "custom2".into(), height: fh, builtin: None, data: rng.bytes(256 * fh as usize), sauce_name: None });
            }
        }
    } else if matches!(ext, "adf" | "idf") && rng.chance(1, 3) {
        d.fonts.push(FontD { slot: 0, name: "custom".into(), height: 16, builtin: None, data: rng.bytes(4096), sauce_name: None });
    }
    if matches!(ext, "xb" | "adf" | "idf") && rng.bool() {
        // 16 six-bit colours
        d.palette = Some((0..16).map(|_| {
            let e = |v: u8| v << 2 | v >> 4;
            (e(rng.byte() & 63), e(rng.byte() & 63), e(rng.byte() & 63))
        }).collect());
    } else if ext == "tnd" && rng.bool() {
        d.palette_mode = 0;
        d.palette = Some((0..(16 + rng.usize(40))).map(|_| (rng.byte(), rng.byte(), rng.byte())).collect());
    }
    let ncol = d.palette.as_ref().map(|p| p.len() as u32).unwrap_or(16);
    let chars = match rng.usize(4) {
        0 => Chars::Small,
        1 => Chars::Printable,
        _ => Chars::Full,
    };
    let colors = if ext == "tnd" && ncol > 16 {
        Colors::Palette(ncol)
    } else if two_fonts {
        Colors::Palette(8)
    } else if ice {
        Colors::Ice
    } else {
        Colors::Dos
    };
    let density = if (w as i64) * (h as i64) > 20000 { 5 } else { 90 };
    doc::fill_cells(rng, &mut d.layers[0], chars, colors, 0, if two_fonts { 2 } else { 1 }, density);
    if two_fonts {
        for c in d.layers[0].cells.iter_mut() {
            c.fg &= 7;
        }
    }
    if !ice {
        for c in d.layers[0].cells.iter_mut() {
            c.bg &= 7;
            if rng.chance(1, 6) {
                c.attr |= icy_engine::attribute::BLINK;
            }
        }
    }
    // the bold flag (the byte formats fold it into the foreground: bold on 0..7 is saved as 8..15, bold on 8..15 stays)
    if rng.chance(1, 3) {
        for c in d.layers[0].cells.iter_mut() {
            if rng.chance(1, 6) && !(two_fonts) {
                c.attr |= icy_engine::attribute::BOLD;
            }
        }
    }
    // the two fonts of a 512-character picture need not sit in slots 0 and 1: sometimes they are in slots 1 and 2 or 0 and 5
    // (the file stores "first" and "second" font, whatever their slot numbers were)
    if two_fonts && d.fonts.len() == 2 && rng.chance(1, 4) {
        let (a, b) = *rng.pick(&[(1usize, 2usize), (0, 5), (3, 4)]);
        d.fonts[0].slot = a;
        d.fonts[1].slot = b;
        d.font_mode = 0;
        for c in d.layers[0].cells.iter_mut() {
            c.fp = if c.fp == 0 { a as u16 } else { b as u16 };
        }
        d.layers[0].default_font_page = a as u16;
        if a != 0 {
            d.fonts.push(FontD { slot: 0, name: "unused".into(), height: d.fonts[0].height, builtin: None, data: vec![0x55; 256 * d.fonts[0].height as usize], sauce_name: None });
        }
    }
    // likewise the only font of a single-font picture: in slot 1 / 3 / 5, every cell on that page, another font in slot 0
    if !two_fonts && d.fonts.len() == 1 && d.fonts[0].slot == 0 && matches!(ext, "xb" | "adf" | "idf") && rng.chance(1, 5) {
        let a = *rng.pick(&[1usize, 3, 5]);
        d.fonts[0].slot = a;
        d.font_mode = 0;
        for c in d.layers[0].cells.iter_mut() {
            c.fp = a as u16;
        }
        d.layers[0].default_font_page = a as u16;
        if rng.bool() {
            d.fonts.push(FontD { slot: 0, name: "unused".into(), height: d.fonts[0].height, builtin: None, data: vec![0x55; 256 * d.fonts[0].height as usize], sauce_name: None });
        } else {
            d.fonts.push(FontD { slot: 0, name: "stock".into(), height: 16, builtin: Some(0), data: vec![], sauce_name: None });
        }
    }
    // forced classes: control-range characters, second font inside runs
    if rng.chance(1, 3) && w >= 8 {
        for (i, ch) in [1u32, 2, 6, 0, 255, 13, 10, 27].iter().enumerate() {
            d.layers[0].cells.retain(|c| !(c.y == 0 && c.x == i as i32));
            let fp0 = d.layers[0].default_font_page;
            d.layers[0].cells.push(CellD { x: i as i32, y: 0, ch: *ch, fg: 3, bg: 1, attr: 0, fp: fp0 });
        }
    }
    // last row / last column never empty, so that the intended size is what the picture needs
    d.layers[0].cells.retain(|c| !(c.y == h - 1 && c.x == w - 1));
    let fp0 = d.layers[0].default_font_page;
    d.layers[0].cells.push(CellD { x: w - 1, y: h - 1, ch: 0x58, fg: 7, bg: 0, attr: 0, fp: fp0 });
    let sauce = matches!(ext, "bin" | "tnd") || (ext == "idf" && w != 80) || rng.chance(1, 4);
    if sauce {
        // a retouched copy of a stock font keeps its name: the SAUCE record then names a font the loader knows, while the file
        // embeds other glyphs - the embedded ones are the picture's
        for f in d.fonts.iter_mut().filter(|f| f.builtin.is_none() && f.height == 16 && f.name == "custom") {
            if rng.chance(1, 2) {
                f.name = rng.pick(&["IBM VGA", "IBM VGA50", "Amiga Topaz 2"]).to_string();
            }
        }
        d.sauce = Some(doc::random_sauce(rng));
    }
    (d, sauce)
}

#[derive(Default)]
pub struct C05 {
    seeds: Vec<files::Seed>,
}

impl C05 {
    fn case_for(&self, ctx: &Ctx, k: u64) -> Case05 {
        let mut rng = ctx.rng(k);
        let ext = FMTS[(k % 5) as usize];
        let have_seeds = self.seeds.iter().any(|s| s.api == "buf" && s.ext == ext);
        if rng.chance(3, 4) || !have_seeds {
            let (d, sauce) = gen_doc(&mut rng, ext);
            Case05::Doc { ext: ext.into(), doc: d, compress: rng.chance(2, 3), sauce }
        } else {
            let cands: Vec<&files::Seed> = self.seeds.iter().filter(|s| s.api == "buf" && s.ext == ext).collect();
            let s = cands[rng.usize(cands.len())];
            let other = cands[rng.usize(cands.len())];
            let (bytes, what) = if rng.chance(1, 4) { (s.bytes.clone(), "seed".to_string()) } else { files::mutate_bytes(&mut rng, &s.bytes, &other.bytes) };
            Case05::Resave { ext: ext.into(), bytes, origin: format!("{} {what}", s.name) }
        }
    }

    fn exec(&mut self, ctx: &mut Ctx, case: &Case05) {
        let c = case.clone();
        let (out, _m) = guarded(Budgets { work: 400_000_000, ..Budgets::default() }, move || run(&c));
        match case {
            Case05::Doc { ext, doc: d, compress, sauce } => {
                ctx.count(&format!("docs_{ext}"), 1);
                ctx.fp(crate::rng::mix(crate::rng::hash_str(ext), (d.w as u64) << 40 | (d.h as u64) << 24 | (d.fonts.len() as u64) << 8 | (d.ice as u64) << 4 | (*compress as u64) << 1 | *sauce as u64));
                if ctx.want_sample() && ctx.evaluations % 401 == 7 {
                    ctx.sample(json!({"kind": "doc", "ext": ext, "size": [d.w, d.h], "fonts": d.fonts.len(), "ice": d.ice, "compress": compress, "sauce": sauce, "cells": d.layers[0].cells.len()}));
                }
            }
            Case05::Resave { ext, bytes, origin } => {
                ctx.count(&format!("resave_{ext}"), 1);
                ctx.fp(crate::rng::mix(crate::rng::hash_str(ext), crate::rng::hash_bytes(bytes)));
                if ctx.want_sample() && ctx.evaluations % 401 == 9 {
                    ctx.sample(json!({"kind": "resave", "ext": ext, "origin": origin, "len": bytes.len()}));
                }
            }
        }
        match out {
            Outcome::Done(Some((key, mut detail))) => {
                if let Case05::Resave { origin, .. } = case {
                    detail["origin"] = json!(origin);
                }
                if let Case05::Doc { doc: d, compress, .. } = case {
                    detail["size"] = json!([d.w, d.h]);
                    detail["compress"] = json!(compress);
                }
                ctx.violation(&format!("mismatch|{key}"), detail, serde_json::to_value(case).unwrap());
            }
            Outcome::Done(None) => {}
            Outcome::Panicked(p) => match p.kind {
                crate::mon::PanicKind::Engine => ctx.panic_violation("binary-format", &p, serde_json::to_value(case).unwrap()),
                _ => ctx.count("resource_events", 1),
            },
        }
    }
}

impl Prop for C05 {
    fn id(&self) -> &'static str {
        "C05"
    }
    fn rule(&self) -> &'static str {
        "(doc) generated documents in the domain of each format - XBin width 1..=4096 x height 1..=200, one or two fonts of height 1..=32, 16 six-bit colours, blink or ice, compressed or not; BIN even widths with SAUCE; ADF / IDF ice, 8x16 font, width 80 (IDF 1..=80); Tundra any width with SAUCE and 24-bit palette; heights <25/=25/>25, control-range characters and second-font cells forced, the bold flag on some cells, the two fonts of a 512-character picture sometimes in slots 1/2, 0/5 or 3/4 - are saved, read by an independent reference decoder for BIN/ADF/IDF/Tundra (writer side), loaded by the engine and compared: size, every cell by what it shows (glyph bitmap, displayed fg/bg RGB where the glyph has such pixels, blink), font page, ice mode, embedded font glyphs, palette; then saved and loaded again (stability). (resave) seed files and byte-level mutations of them that the loader accepts: load -> save -> load must equal the first load. distinct_nontrivial = distinct (format, size, fonts, ice, options) documents / distinct accepted byte strings"
    }
    fn meta(&self, ctx: &Ctx) -> Value {
        json!({"floor_evaluations": 2000, "floor_distinct": ctx.tier.pick(1500u64, 20000u64), "deferred_death_classes": ["alloc-failure", "stack-overflow"],
               "assumptions": ["cells are compared by what they show (a blank glyph has no foreground)", "palette colours are compared at the six-bit precision XBin/ADF/IDF store"]})
    }
    fn total(&mut self, ctx: &Ctx) -> u64 {
        self.seeds = files::build_corpus();
        ctx.tier.pick(8_000, 600_000)
    }
    fn run_case(&mut self, ctx: &mut Ctx, k: u64) {
        let case = self.case_for(ctx, k);
        ctx.begin(k);
        self.exec(ctx, &case);
    }
    fn replay(&mut self, ctx: &mut Ctx, case: &Value) {
        let c: Case05 = serde_json::from_value(case.clone()).expect("c05 case");
        ctx.begin(0);
        self.exec(ctx, &c);
    }
}

#[allow(dead_code)]
fn unused(_: Chars) {}
