//! C18 — 8-bit attribute and code-page codecs are exact inverses (finite, exhaustive).
use icy_engine::{AttributedChar, IceMode, TextAttribute, UnicodeConverter};
use serde_json::{json, Value};

use crate::ctx::Ctx;
use crate::mon::{guarded, Budgets, Outcome};
use crate::Prop;

#[derive(Default)]
pub struct C18 {}

const MODES: [(IceMode, &str); 3] = [(IceMode::Blink, "blink"), (IceMode::Ice, "ice"), (IceMode::Unlimited, "unlimited")];

fn converters() -> Vec<(&'static str, Box<dyn UnicodeConverter>)> {
    vec![
        ("cp437", Box::<icy_engine::parsers::ascii::CP437Converter>::default()),
        ("petscii", Box::<icy_engine::parsers::petscii::CharConverter>::default()),
        ("atascii", Box::<icy_engine::parsers::atascii::CharConverter>::default()),
        ("viewdata", Box::<icy_engine::parsers::viewdata::CharConverter>::default()),
        ("mode7", Box::<icy_engine::parsers::mode7::CharConverter>::default()),
    ]
}

fn displayed_fg(a: TextAttribute) -> u32 {
    if a.is_bold() && a.get_foreground() < 8 {
        a.get_foreground() + 8
    } else {
        a.get_foreground()
    }
}

// cases: 0..3 byte round trip per mode; 3..6 tuple round trip per mode; 6 cp437 codes; 7 atascii codes; 8..13 alphanumerics per converter
const N: u64 = 13;

impl Prop for C18 {
    fn id(&self) -> &'static str {
        "C18"
    }
    fn rule(&self) -> &'static str {
        "complete enumeration: 256 attribute bytes x 3 modes (decode->encode), all (fg 0..=15, bg, blink, bold) tuples expressible in each mode (bg<8 in blink and unlimited mode, no blink in ice mode; encode->decode compares displayed fg, bg, blink), 256 CP437 codes and 128 ATASCII codes (to_unicode->from_unicode), 63 alphanumerics+space x 5 converters (from_unicode->to_unicode). distinct_nontrivial = distinct (codec, input, output) triples observed"
    }
    fn meta(&self, _ctx: &Ctx) -> Value {
        json!({"exhaustive": true, "floor_evaluations": 13, "floor_distinct": 1500,
               "assumptions": ["'expressible in a mode' = image of from_u8 in that mode: background < 8 in blink and unlimited mode (bit 7 is blink there), no blink in ice mode", "foreground compared as displayed (bold && fg<8 => fg+8)"]})
    }
    fn total(&mut self, _ctx: &Ctx) -> u64 {
        N
    }
    fn run_case(&mut self, ctx: &mut Ctx, k: u64) {
        ctx.begin(k);
        self.exec(ctx, k, &json!({"k": k}));
    }
    fn replay(&mut self, ctx: &mut Ctx, case: &Value) {
        let k = case["k"].as_u64().unwrap_or(0);
        ctx.begin(k);
        self.exec(ctx, k, case);
    }
}

impl C18 {
    fn exec(&mut self, ctx: &mut Ctx, k: u64, case: &Value) {
        let (out, _m) = guarded(Budgets::default(), || {
            let mut bad: Vec<(String, Value)> = Vec::new();
            let mut fps: Vec<u64> = Vec::new();
            let mut n = 0u64;
            if k < 3 {
                let (mode, mname) = MODES[k as usize];
                for b in 0..=255u8 {
                    let a = TextAttribute::from_u8(b, mode);
                    let back = a.as_u8(mode);
                    n += 1;
                    fps.push(crate::rng::mix(10 + k, (b as u64) << 8 | back as u64));
                    if back != b {
                        bad.push((
                            format!("mismatch|attr-byte|{mname}|bit7={}", b >> 7),
                            json!({"mode": mname, "byte": b, "reencoded": back, "fg": a.get_foreground(), "bg": a.get_background(), "blink": a.is_blinking()}),
                        ));
                    }
                }
            } else if k < 6 {
                let (mode, mname) = MODES[(k - 3) as usize];
                for fg in 0..16u32 {
                    for bg in 0..16u32 {
                        for blink in [false, true] {
                            for bold in [false, true] {
                                let expressible = match mode {
                                    IceMode::Blink | IceMode::Unlimited => bg < 8,
                                    IceMode::Ice => !blink,
                                };
                                if !expressible {
                                    continue;
                                }
                                let mut a = TextAttribute::new(fg, bg);
                                a.set_is_blinking(blink);
                                a.set_is_bold(bold);
                                let byte = a.as_u8(mode);
                                let d = TextAttribute::from_u8(byte, mode);
                                n += 1;
                                fps.push(crate::rng::mix(20 + k, (fg as u64) << 24 | (bg as u64) << 16 | (blink as u64) << 9 | (bold as u64) << 8 | byte as u64));
                                if displayed_fg(d) != displayed_fg(a) || d.get_background() != bg || d.is_blinking() != blink {
                                    bad.push((
                                        format!("mismatch|attr-tuple|{mname}|blink={blink}"),
                                        json!({"mode": mname, "fg": fg, "bg": bg, "blink": blink, "bold": bold, "byte": byte,
                                               "decoded_fg": d.get_foreground(), "decoded_bg": d.get_background(), "decoded_blink": d.is_blinking()}),
                                    ));
                                }
                            }
                        }
                    }
                }
            } else if k == 6 || k == 7 {
                let convs = converters();
                let (name, conv, count) = if k == 6 { (convs[0].0, &convs[0].1, 256u32) } else { (convs[2].0, &convs[2].1, 128u32) };
                for c in 0..count {
                    let ch = char::from_u32(c).unwrap();
                    let uni = conv.convert_to_unicode(AttributedChar::new(ch, TextAttribute::default()));
                    let back = conv.convert_from_unicode(uni, 0);
                    n += 1;
                    fps.push(crate::rng::mix(30 + k, (c as u64) << 32 | uni as u64));
                    if back != ch {
                        bad.push((
                            format!("mismatch|codepage|{name}|code={c:#04x}"),
                            json!({"converter": name, "code": c, "unicode": uni as u32, "back": back as u32}),
                        ));
                    }
                }
            } else {
                let convs = converters();
                let (name, conv) = (&convs[(k - 8) as usize].0, &convs[(k - 8) as usize].1);
                let mut chars: Vec<char> = ('a'..='z').chain('A'..='Z').chain('0'..='9').collect();
                chars.push(' ');
                for ch in chars {
                    let code = conv.convert_from_unicode(ch, 0);
                    let back = conv.convert_to_unicode(AttributedChar::new(code, TextAttribute::default()));
                    n += 1;
                    fps.push(crate::rng::mix(40 + k, (ch as u64) << 32 | code as u64));
                    if back != ch {
                        bad.push((
                            format!("mismatch|typed-char|{name}|{}", if ch.is_ascii_uppercase() { "upper" } else if ch.is_ascii_lowercase() { "lower" } else { "other" }),
                            json!({"converter": name, "char": ch.to_string(), "code": code as u32, "back": back as u32}),
                        ));
                    }
                }
            }
            (bad, fps, n)
        });
        match out {
            Outcome::Done((bad, fps, n)) => {
                ctx.count("comparisons", n);
                for f in fps {
                    ctx.fp(f);
                }
                ctx.sample(json!({"case": k, "comparisons": n, "mismatches": bad.len()}));
                for (key, detail) in bad {
                    ctx.violation(&key, detail, case.clone());
                }
            }
            Outcome::Panicked(p) => ctx.panic_violation("codec", &p, case.clone()),
        }
    }
}
