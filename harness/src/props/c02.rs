//! C02 — no file content can crash a loader.
use serde_json::{json, Value};

use crate::ctx::Ctx;
use crate::files::{self, LoadCase, Seed, ALL_EXTS};

/// offsets from which the NUL bytes of a seed are replaced (the prefix before it - magic numbers, indicators - stays)
/// replacement values for decimal numbers found in seed files
const TEXT_NUMBERS: [&str; 14] = ["0", "1", "255", "256", "65535", "65536", "16777216", "2147483647", "2147483648", "4294967295", "4294967296", "1152921504606846976", "18446744073709551615", "99999999999999999999999999"];

const NULFREE_FROM: [usize; 7] = [0, 8, 16, 24, 32, 48, 64];

/// text formats and the emulation whose grammar their loader parses
const GRAMMAR_EXTS: [(&str, &str); 12] = [
    ("ans", "ansi"),
    ("ans", "ansi"),
    ("ice", "ansi"),
    ("diz", "ansi"),
    ("avt", "avatar"),
    ("pcb", "pcboard"),
    ("msg", "ctrla"),
    ("an1", "renegade"),
    ("seq", "petscii"),
    ("ata", "atascii"),
    ("asc", "ascii"),
    ("nfo", "ansi"),
];
use crate::mon::{Budgets, Outcome, PanicKind};
use crate::rng::{hash_bytes, hash_str, mix};
use crate::shrink::shrink_list;
use crate::Prop;

#[derive(Default)]
pub struct C02 {
    seeds: Vec<Seed>,
    /// cumulative case counts per class
    trunc_index: Vec<(usize, usize)>, // (seed, length)
    n_trunc: u64,
    n_flip: u64,
    n_cross: u64,
    n_grammar: u64,
    n_nulfree: u64,
    flip_offsets: Vec<Vec<usize>>,
    /// (seed, start, end) of decimal digit runs in the seed files (text-number class)
    num_runs: Vec<(usize, usize, usize)>,
    n_textnum: u64,
    /// (seed, chunk index, number of payload bytes covered) of the text chunks of the IcyDraw seeds
    icy_chunks: Vec<(usize, usize, usize)>,
    n_icychunk: u64,
    n_unicode: u64,
}

/// characters beyond Latin-1 that a text file in UTF-8 (byte order mark first) hands to the parsers: table boundaries,
/// the mark itself, box drawing, the planes' last code points, and characters whose low 16 bits are a surrogate
const UNICODE_CHARS: [u32; 22] = [
    0x100, 0x17F, 0x2500, 0x263A, 0x2588, 0xD7FF, 0xE000, 0xFEFF, 0xFFFD, 0xFFFF, 0x1_0000, 0x1_D800, 0x1_DFFF, 0x2_D800, 0x1_F600, 0xE_0001, 0x10_D800, 0x10_FFFF, 0x80, 0x9B, 0xA0,
    0xFF,
];

/// values planted into the first bytes of an IcyDraw chunk payload: the small selector values (role, mode, flags ...), the
/// byte extremes, and +1 / -1
const ICY_CHUNK_VALUES: [i16; 11] = [0, 1, 2, 3, 4, 5, 0x7F, 0x80, 0xFF, -1, -2];

const FLIP_VALUES: [i16; 7] = [0, 1, 0x7F, 0x80, 0xFF, -1, -2]; // -1 => +1, -2 => -1 (relative)

pub fn load_budgets(n: usize) -> Budgets {
    Budgets {
        // the C03 bound for files, capped: exceeding it is a resource event decided by C03, and a crash monitor has no use
        // for a load that goes on for a minute (a 355-byte Ctrl-A file whose SAUCE record declares 1000 x 32767 cells and
        // that scrolls 40 times needed 60 CPU-seconds, three minutes on a loaded machine - the supervisor's watchdog)
        work: (64 * 65536 * (n as u64 + 1)).min(400_000_000),
        depth: 32,
        block_ms: -1,
    }
}

fn trunc_lengths(len: usize, quick: bool) -> Vec<usize> {
    // every length for small files, every length in the header / tail region plus a stride beyond
    let mut v = Vec::new();
    let dense = if quick { 2048 } else { 8192 };
    for l in 0..len {
        if len <= dense || l < 300 || l + 300 >= len || l % (if quick { 97 } else { 13 }) == 0 {
            v.push(l);
        }
    }
    v
}

impl C02 {
    fn case_for(&self, ctx: &Ctx, k: u64) -> (LoadCase, &'static str) {
        if k < self.n_trunc {
            let (si, l) = self.trunc_index[k as usize];
            let s = &self.seeds[si];
            return (
                LoadCase {
                    api: s.api.clone(),
                    ext: s.ext.clone(),
                    bytes: s.bytes[..l].to_vec(),
                    origin: format!("{} truncated to {l} of {}", s.name, s.bytes.len()),
                },
                "truncation",
            );
        }
        let k2 = k - self.n_trunc;
        if k2 < self.n_flip {
            // (seed, offset, value)
            let mut r = k2;
            let vi = (r % 7) as usize;
            r /= 7;
            let mut si = 0;
            loop {
                let n = self.flip_offsets[si].len() as u64;
                if r < n {
                    break;
                }
                r -= n;
                si += 1;
            }
            let s = &self.seeds[si];
            let o = self.flip_offsets[si][r as usize];
            let mut bytes = s.bytes.clone();
            let v = FLIP_VALUES[vi];
            bytes[o] = match v {
                -1 => bytes[o].wrapping_add(1),
                -2 => bytes[o].wrapping_sub(1),
                x => x as u8,
            };
            return (
                LoadCase {
                    api: s.api.clone(),
                    ext: s.ext.clone(),
                    bytes,
                    origin: format!("{} byte@{o} := {v}", s.name),
                },
                "byte-corruption",
            );
        }
        let k3 = k2 - self.n_flip;
        if k3 < self.n_cross {
            let si = (k3 / ALL_EXTS.len() as u64) as usize;
            let ext = ALL_EXTS[(k3 % ALL_EXTS.len() as u64) as usize];
            let s = &self.seeds[si];
            return (
                LoadCase {
                    api: "buf".into(),
                    ext: ext.into(),
                    bytes: s.bytes.clone(),
                    origin: format!("{} loaded as .{ext}", s.name),
                },
                "cross-extension",
            );
        }
        let k4 = k3 - self.n_cross;
        if k4 < self.n_grammar {
            // a text-format file written in the grammar of its emulation: the loader runs the real parser on a
            // file buffer (no terminal clamping), which the byte-level mutations of writer output rarely reach
            let mut rng = ctx.rng(k);
            let (ext, emu) = *rng.pick(&GRAMMAR_EXTS);
            let (w, h) = (80, 25);
            let mut bytes = if rng.chance(1, 2) { crate::gen_stream::state_prefix(&mut rng, emu, w, h) } else { Vec::new() };
            let long = rng.chance(1, 5);
            let n = 1 + rng.usize(if long { 400 } else { 40 });
            bytes.extend(crate::gen_stream::token_stream(&mut rng, emu, w, h, n, false));
            if rng.chance(1, 5) {
                bytes.extend(files::sauce_tail(&mut rng));
            }
            return (
                LoadCase {
                    api: "buf".into(),
                    ext: ext.into(),
                    bytes,
                    origin: format!("{emu} grammar stream as .{ext}"),
                },
                "grammar-stream-file",
            );
        }
        let k5 = k4 - self.n_grammar;
        if k5 < self.n_nulfree {
            // terminator scans: every 0x00 after an offset is replaced (names, tables and strings then have no end inside
            // the file), combined with one length-like header byte set high or a cut
            let per_seed = NULFREE_FROM.len() as u64 * (40 * 3 + 16);
            let s = &self.seeds[(k5 / per_seed) as usize % self.seeds.len()];
            let mut r = k5 % per_seed;
            let from = NULFREE_FROM[(r % NULFREE_FROM.len() as u64) as usize];
            r /= NULFREE_FROM.len() as u64;
            let mut bytes = s.bytes.clone();
            for b in bytes.iter_mut().skip(from) {
                if *b == 0 {
                    *b = 0xFF;
                }
            }
            let what;
            if r < 40 * 3 {
                // a length-like byte in the 40 bytes that follow the untouched prefix
                let (o, v) = (from + (r / 3) as usize, [0xFFu8, 0xD1, 0x80][(r % 3) as usize]);
                if o < bytes.len() {
                    bytes[o] = v;
                }
                what = format!("byte@{o} := {v:#x}");
            } else {
                let i = (r - 40 * 3) as usize;
                let cut = bytes.len() * (i + 1) / 17;
                bytes.truncate(cut);
                what = format!("cut to {cut}");
            }
            return (
                LoadCase {
                    api: s.api.clone(),
                    ext: s.ext.clone(),
                    bytes,
                    origin: format!("{} NUL-free from {from}, {what}", s.name),
                },
                "nul-free",
            );
        }
        let k6 = k5 - self.n_nulfree;
        if k6 < self.n_textnum {
            // every decimal number written in a seed (colour counts and components of the palette formats, CSI parameters,
            // PCBoard / Renegade codes) replaced by an extreme: counts that drive reserve / resize / loops
            let (si, a, b) = self.num_runs[(k6 / TEXT_NUMBERS.len() as u64) as usize];
            let v = TEXT_NUMBERS[(k6 % TEXT_NUMBERS.len() as u64) as usize];
            let s = &self.seeds[si];
            let mut bytes = s.bytes[..a].to_vec();
            bytes.extend_from_slice(v.as_bytes());
            bytes.extend_from_slice(&s.bytes[b..]);
            return (
                LoadCase {
                    api: s.api.clone(),
                    ext: s.ext.clone(),
                    bytes,
                    origin: format!("{} number@{a}..{b} := {v}", s.name),
                },
                "text-number",
            );
        }
        let k7 = k6 - self.n_textnum;
        if k7 < self.n_icychunk {
            // a byte of the *decoded* payload of a chunk of an IcyDraw file (the file itself is a PNG: corrupting its bytes
            // fails the CRC or the inflater and never reaches the chunk reader)
            let mut r = k7;
            let v = ICY_CHUNK_VALUES[(r % ICY_CHUNK_VALUES.len() as u64) as usize];
            r /= ICY_CHUNK_VALUES.len() as u64;
            let mut t = 0;
            loop {
                let n = self.icy_chunks[t].2 as u64;
                if r < n {
                    break;
                }
                r -= n;
                t += 1;
            }
            let (si, ci, _) = self.icy_chunks[t];
            let s = &self.seeds[si];
            let o = r as usize;
            let mut bytes = s.bytes.clone();
            let mut what = String::new();
            if let Some(mut chunks) = files::png_split(&s.bytes) {
                if let Some((kw, mut payload)) = files::ztxt_decode(&chunks[ci]) {
                    if o < payload.len() {
                        payload[o] = match v {
                            -1 => payload[o].wrapping_add(1),
                            -2 => payload[o].wrapping_sub(1),
                            x => x as u8,
                        };
                        what = format!("{kw} payload byte@{o} := {v}");
                        chunks[ci] = files::ztxt_encode(&kw, &payload);
                        bytes = files::png_join(&chunks);
                    }
                }
            }
            return (
                LoadCase {
                    api: s.api.clone(),
                    ext: s.ext.clone(),
                    bytes,
                    origin: format!("{} {what}", s.name),
                },
                "icy-chunk-byte",
            );
        }
        let k8 = k7 - self.n_icychunk;
        if k8 < self.n_unicode {
            // a text file that starts with the UTF-8 byte order mark is decoded as UTF-8: its parser then meets characters
            // beyond 0xFF - as text, as the character of a repeat command, as parameter, intermediate or final "byte" of
            // a control sequence, after every lead-in
            let mut rng = ctx.rng(k);
            let (ext, emu) = *rng.pick(&GRAMMAR_EXTS);
            let n = 1 + rng.usize(40);
            let raw = crate::gen_stream::token_stream(&mut rng, emu, 80, 25, n, false);
            let mut text = String::from("\u{FEFF}");
            let mut after_lead_in = false;
            for b in raw {
                let p = if after_lead_in { 3 } else { 12 };
                if rng.chance(1, p) {
                    let c = *rng.pick(&UNICODE_CHARS);
                    if let Some(c) = char::from_u32(c) {
                        text.push(c);
                    }
                    if rng.bool() {
                        after_lead_in = false;
                        continue;
                    }
                }
                after_lead_in = matches!(b, 0x1B | 0x16 | 0x19 | 0x01 | b'@' | b'|' | b'[' | b';' | b'^');
                text.push(b as char);
            }
            if rng.chance(1, 6) {
                // a SAUCE record cannot follow (its bytes are not UTF-8): the file ends in text
                text.push('\u{1A}');
            }
            return (
                LoadCase {
                    api: "buf".into(),
                    ext: ext.into(),
                    bytes: text.into_bytes(),
                    origin: format!("{emu} grammar stream as UTF-8 (byte order mark) .{ext}"),
                },
                "unicode-text-file",
            );
        }
        // random
        let mut rng = ctx.rng(k);
        let si = rng.usize(self.seeds.len());
        let s = &self.seeds[si];
        let other = &self.seeds[rng.usize(self.seeds.len())];
        match rng.usize(10) {
            0 | 1 if s.api == "buf" => {
                // SAUCE tails on every content kind
                let mut bytes = s.bytes.clone();
                if let Ok(Some(sd)) = icy_engine::SauceData::extract(&bytes) {
                    let l = bytes.len().saturating_sub(sd.sauce_header_len);
                    bytes.truncate(l);
                }
                if rng.chance(1, 6) {
                    bytes.clear();
                }
                bytes.extend(files::sauce_tail(&mut rng));
                (
                    LoadCase {
                        api: if rng.chance(1, 4) { "sauce".into() } else { "buf".into() },
                        ext: s.ext.clone(),
                        bytes,
                        origin: format!("{} + generated SAUCE tail", s.name),
                    },
                    "sauce-tail",
                )
            }
            2 | 3 | 4 if s.ext == "icy" => {
                if let Some((bytes, what)) = files::mutate_icy(&mut rng, &s.bytes) {
                    (
                        LoadCase {
                            api: "buf".into(),
                            ext: "icy".into(),
                            bytes,
                            origin: format!("{} icy-structure: {what}", s.name),
                        },
                        "icy-structure",
                    )
                } else {
                    (
                        LoadCase {
                            api: s.api.clone(),
                            ext: s.ext.clone(),
                            bytes: s.bytes.clone(),
                            origin: s.name.clone(),
                        },
                        "seed",
                    )
                }
            }
            5 if s.api.starts_with("pal:") => {
                // palette text through the file-name based importer as well
                let (bytes, what) = files::mutate_bytes(&mut rng, &s.bytes, &other.bytes);
                (
                    LoadCase {
                        api: "palfile".into(),
                        ext: rng.pick(&["pal", "gpl", "hex", "txt", "ice", "xyz"]).to_string(),
                        bytes,
                        origin: format!("{} {what} via import_palette", s.name),
                    },
                    "palette-import",
                )
            }
            _ => {
                let (mut bytes, mut what) = files::mutate_bytes(&mut rng, &s.bytes, &other.bytes);
                if rng.chance(1, 4) {
                    let (b2, w2) = files::mutate_bytes(&mut rng, &bytes, &other.bytes);
                    bytes = b2;
                    what = format!("{what}; {w2}");
                }
                bytes.truncate(400_000);
                (
                    LoadCase {
                        api: s.api.clone(),
                        ext: s.ext.clone(),
                        bytes,
                        origin: format!("{} {what}", s.name),
                    },
                    "mutation",
                )
            }
        }
    }
}

pub fn exec_load(ctx: &mut Ctx, case: &LoadCase, class: &str, for_prop: &str) {
    let b = load_budgets(case.bytes.len());
    let (out, m) = files::run_load(case, b);
    ctx.count(&format!("cases_{class}"), 1);
    ctx.count(&format!("loads_api_{}", case.api.split(':').next().unwrap_or("")), 1);
    if case.api == "buf" {
        ctx.count(&format!("loads_ext_{}", case.ext.to_ascii_lowercase()), 1);
    }
    ctx.max("max_ticks_one_load", m.ticks);
    ctx.max("max_peak_alloc_one_load", m.alloc.peak_over_base as u64);
    let thread_panics = crate::mon::take_other_thread_panics();
    match &out {
        Outcome::Done(o) => {
            ctx.count(if o.ok { "loads_ok" } else { "loads_err" }, 1);
            ctx.fp(mix(mix(hash_str(&case.api), hash_str(&case.ext)), mix(hash_str(class), (o.ok as u64) << 40 | (o.layers as u64) << 32 | o.size.map(|s| ((s.0 as u64) << 16) ^ s.1 as u64).unwrap_or(0))));
            if ctx.want_sample() && ctx.evaluations % 997 == 3 {
                ctx.sample(json!({"class": class, "api": case.api, "ext": case.ext, "origin": case.origin, "len": case.bytes.len(), "result": if o.ok { "Ok" } else { "Err" }, "size": o.size}));
            }
        }
        Outcome::Panicked(p) => {
            ctx.fp(mix(hash_str(&case.api), hash_bytes(p.file.as_bytes()) ^ p.line as u64));
            match p.kind {
                PanicKind::Engine | PanicKind::Harness => {
                    if for_prop == "C02" {
                        let (key, _) = crate::ctx::panic_key("load", p);
                        let mut used = case.clone();
                        if ctx.seen(&key) == 0 && !ctx.replay && case.bytes.len() < 20000 {
                            let (_, d0) = crate::ctx::panic_key("load", p);
                            ctx.violation_pending(&key, d0, serde_json::to_value(case).unwrap());
                            let shr = shrink_list(&case.bytes, 150, |cand| {
                                let c = LoadCase {
                                    api: case.api.clone(),
                                    ext: case.ext.clone(),
                                    bytes: cand.to_vec(),
                                    origin: String::new(),
                                };
                                match files::run_load(&c, load_budgets(cand.len())).0 {
                                    Outcome::Panicked(p2) => crate::ctx::panic_key("load", &p2).0 == key,
                                    _ => false,
                                }
                            });
                            used.bytes = shr;
                            used.origin = format!("{} (shrunk)", case.origin);
                        }
                        let (key, mut detail) = crate::ctx::panic_key("load", p);
                        detail["api"] = json!(case.api);
                        detail["ext"] = json!(case.ext);
                        detail["origin"] = json!(case.origin);
                        detail["len"] = json!(used.bytes.len());
                        ctx.violation(&key, detail, serde_json::to_value(&used).unwrap());
                    } else {
                        ctx.count("loads_ended_by_panic_(C02)", 1);
                    }
                }
                _ => ctx.count("resource_events_deferred_to_C03", 1),
            }
        }
    }
    for p in thread_panics {
        if matches!(p.kind, PanicKind::Engine) && for_prop == "C02" {
            ctx.panic_violation("load-decode-thread", &p, serde_json::to_value(case).unwrap());
        }
    }
}

impl Prop for C02 {
    fn id(&self) -> &'static str {
        "C02"
    }
    fn rule(&self) -> &'static str {
        "seed corpus = output of every engine writer (14 formats, with/without SAUCE and comments, compressed/raw) on 10 generated documents incl. ice-mode 80-column pictures (ADF/IDF), an ATASCII buffer, multi-layer/custom-font/large-palette IcyDraw, a hand-made PETSCII file, a feature ANSI file, PSF1/PSF2/raw fonts, the shipped TDF font, 5 palette formats, a bare SAUCE record. cases: (truncation) every prefix length of every seed (dense for small files and in header/tail regions, strided beyond); (byte-corruption) every byte of the first 160 and last 140 bytes x {0,1,0x7F,0x80,0xFF,+1,-1}; (cross-extension) every seed under 27 extensions incl. unknown and upper-case; (grammar) token streams in the grammar of the format's own emulation (ANSI incl. modes/margins/macros, Avatar, PCBoard, Ctrl-A, Renegade, PETSCII, ATASCII, ASCII) loaded as files, with and without state prefix and SAUCE tail; (nul-free) every seed with all 0x00 bytes after offset 0/8/16/24/32/48/64 replaced by 0xFF, combined with each of the next 40 bytes set to 0xFF/0xD1/0x80 or one of 16 cuts (terminator scans that run off the end); (icy-chunk-byte) every one of the first 64 (thorough: 160) bytes of the decoded payload of every text chunk of every IcyDraw seed - incl. a hand-made one whose layer continues in a LAYER_0~1 chunk - x {0..=5, 0x7F, 0x80, 0xFF, +1, -1}, re-encoded into a valid PNG; (unicode-text-file) grammar streams of every text format as UTF-8 files behind a byte order mark, with characters beyond 0xFF (table boundaries, U+FEFF, U+FFFD, U+FFFF, plane ends, characters whose low 16 bits are a surrogate) as text, as repeat character and count, inside and right after the lead-in of control sequences; (text-number) every decimal number written in a seed (up to 150 per seed: palette counts and components, CSI parameters, @X / | codes) replaced by each of 14 extremes from 0 to 2^64-1 and a 26-digit value; (random) SAUCE tails from field extremes, structure-aware IcyDraw chunk mutation (decode zTXt, mutate payload, re-encode with valid CRC), LE field extremes, splices, inserts, deletes, repeats, pure random. Each case is one call of Buffer::from_bytes / SauceData::extract / BitFont::from_bytes / TheDrawFont::from_tdf_bytes / Palette::load_palette|import_palette under catch_unwind. distinct_nontrivial = distinct (api, extension, class, result, size, layers) fingerprints"
    }
    fn meta(&self, _ctx: &Ctx) -> Value {
        json!({"floor_evaluations": 20000, "floor_distinct": 300, "plain_pass": "quick",
               "deferred_death_classes": ["alloc-failure"],
               "assumptions": ["PaletteFormat::Ase is a literal todo!() in import and export and is not exercised (recorded as a known finding)",
                               "work / allocation events are C03's verdict"]})
    }
    fn total(&mut self, ctx: &Ctx) -> u64 {
        self.seeds = files::build_corpus();
        let quick = ctx.tier == crate::ctx::Tier::Quick;
        self.trunc_index.clear();
        self.flip_offsets.clear();
        for (si, s) in self.seeds.iter().enumerate() {
            for l in trunc_lengths(s.bytes.len(), quick) {
                self.trunc_index.push((si, l));
            }
            let n = s.bytes.len();
            let mut offs: Vec<usize> = (0..n.min(160)).collect();
            for o in n.saturating_sub(140)..n {
                if o >= 160 {
                    offs.push(o);
                }
            }
            self.flip_offsets.push(offs);
        }
        self.n_trunc = self.trunc_index.len() as u64;
        self.n_flip = self.flip_offsets.iter().map(|v| v.len() as u64).sum::<u64>() * 7;
        self.n_cross = (self.seeds.len() * ALL_EXTS.len()) as u64;
        self.n_grammar = ctx.tier.pick(40_000, 1_000_000);
        self.n_nulfree = self.seeds.len() as u64 * NULFREE_FROM.len() as u64 * (40 * 3 + 16);
        self.num_runs = files::decimal_runs(&self.seeds);
        self.n_textnum = self.num_runs.len() as u64 * TEXT_NUMBERS.len() as u64;
        if std::env::var_os("VERIF_C02_SEEDS").is_some() {
            let base = self.n_trunc + self.n_flip + self.n_cross + self.n_grammar + self.n_nulfree;
            for (i, (si, a, b)) in self.num_runs.iter().enumerate() {
                if self.seeds[*si].api.starts_with("pal") {
                    eprintln!("text-number k={} seed={} run {a}..{b} = {:?}", base + i as u64 * TEXT_NUMBERS.len() as u64, self.seeds[*si].name, String::from_utf8_lossy(&self.seeds[*si].bytes[*a..*b]));
                }
            }
        }
        if std::env::var_os("VERIF_C02_SEEDS").is_some() {
            for s in &self.seeds {
                eprintln!("seed {} api={} ext={} len={}", s.name, s.api, s.ext, s.bytes.len());
            }
        }
        self.icy_chunks.clear();
        for (si, s) in self.seeds.iter().enumerate() {
            if s.api != "buf" || s.ext != "icy" {
                continue;
            }
            if let Some(chunks) = files::png_split(&s.bytes) {
                for (ci, c) in chunks.iter().enumerate() {
                    if let Some((_, payload)) = files::ztxt_decode(c) {
                        let n = payload.len().min(if quick { 64 } else { 160 });
                        if n > 0 {
                            self.icy_chunks.push((si, ci, n));
                        }
                    }
                }
            }
        }
        self.n_icychunk = self.icy_chunks.iter().map(|c| c.2 as u64).sum::<u64>() * ICY_CHUNK_VALUES.len() as u64;
        self.n_unicode = ctx.tier.pick(30_000, 400_000);
        self.n_trunc + self.n_flip + self.n_cross + self.n_grammar + self.n_nulfree + self.n_textnum + self.n_icychunk + self.n_unicode + ctx.tier.pick(60_000, 3_000_000)
    }
    fn run_case(&mut self, ctx: &mut Ctx, k: u64) {
        let (case, class) = self.case_for(ctx, k);
        if ctx.replay {
            eprintln!("replaying case {k}: class={class} api={} ext={} len={} origin={}", case.api, case.ext, case.bytes.len(), case.origin);
            if let Some(p) = std::env::var_os("VERIF_DUMP") {
                let _ = std::fs::write(p, &case.bytes);
            }
        }
        ctx.begin(k);
        exec_load(ctx, &case, class, "C02");
    }
    fn replay(&mut self, ctx: &mut Ctx, case: &Value) {
        let c: LoadCase = serde_json::from_value(case.clone()).expect("load case");
        ctx.begin(0);
        exec_load(ctx, &c, "replay", "C02");
    }
}
