//! C19 — table-driven CRCs equal their bitwise definitions (finite, exhaustive).
use icy_engine::{get_crc16, get_crc32, update_crc16, update_crc32, CRC32_TABLE};
use serde_json::{json, Value};

use crate::ctx::{Ctx, Tier};
use crate::mon::{guarded, Budgets, Outcome};
use crate::Prop;

#[derive(Default)]
pub struct C19 {}

fn ref_crc16_update(crc: u16, b: u8) -> u16 {
    let mut c = crc ^ ((b as u16) << 8);
    for _ in 0..8 {
        c = if c & 0x8000 != 0 { (c << 1) ^ 0x1021 } else { c << 1 };
    }
    c
}

fn ref_crc16(data: &[u8]) -> u16 {
    data.iter().fold(0u16, |c, b| ref_crc16_update(c, *b))
}

/// raw (un-inverted) LSB-first update, polynomial 0xEDB88320
fn ref_crc32_update(crc: u32, b: u8) -> u32 {
    let mut c = crc ^ b as u32;
    for _ in 0..8 {
        c = if c & 1 != 0 { (c >> 1) ^ 0xEDB8_8320 } else { c >> 1 };
    }
    c
}

fn ref_crc32(data: &[u8]) -> u32 {
    !data.iter().fold(0xFFFF_FFFFu32, |c, b| ref_crc32_update(c, *b))
}

// case layout:
//   0..256          : CRC-16 update, states hi-byte = k, all 256 lo × 256 bytes
//   256..512        : get_crc16 on all two-byte strings with first byte k-256
//   512..528        : CRC-32 table row k-512 against the recurrence
//   528..784        : update_crc32 for 2^16 states (hi 16 bits = pattern, see below) × 256 bytes, block k-528
//   784..833        : get_crc32 on strings of length k-784 (0..=48), several contents, one-shot vs incremental vs reference
//   833..           : random strings up to 4 KiB
const N_FIXED: u64 = 833;

impl Prop for C19 {
    fn id(&self) -> &'static str {
        "C19"
    }
    fn rule(&self) -> &'static str {
        "cases 0..833 enumerate the finite part completely (2^16 CRC-16 states x 256 bytes, 2^16 two-byte strings, 16x256 CRC-32 table entries against T[0][i]=bitwise crc of byte i and T[k][i]=(T[k-1][i]>>8)^T[0][T[k-1][i]&0xFF], 2^16 CRC-32 states x 256 bytes, lengths 0..=48); the rest are seeded random strings <= 4 KiB; every string is also hashed at each of the sixteen start offsets of a 16-byte aligned block. distinct_nontrivial = distinct (routine, input, output) triples hashed, each of which was compared with the bit-at-a-time reference"
    }
    fn meta(&self, ctx: &Ctx) -> Value {
        json!({"exhaustive": false, "exhaustive_part": "cases 0..833 (all CRC-16 states x bytes, CRC-32 table recurrence, lengths 0..=48) are enumerated completely; random strings are sampled",
               "floor_evaluations": 833, "floor_distinct": ctx.tier.pick(100_000u64, 100_000u64),
               "assumptions": ["the bit-at-a-time reference in harness/src/props/c19.rs is the definition: CRC-16 poly 0x1021 MSB-first init 0; CRC-32 poly 0xEDB88320 LSB-first init ~0 final inversion", "update_crc32 is the raw (un-inverted) register update"]})
    }
    fn total(&mut self, ctx: &Ctx) -> u64 {
        N_FIXED + ctx.tier.pick(20_000, 100_000)
    }
    fn run_case(&mut self, ctx: &mut Ctx, k: u64) {
        ctx.begin(k);
        let case = json!({"k": k});
        self.exec(ctx, k, &case);
    }
    fn replay(&mut self, ctx: &mut Ctx, case: &Value) {
        let k = case["k"].as_u64().unwrap_or(0);
        ctx.begin(k);
        self.exec(ctx, k, case);
    }
}

impl C19 {
    fn exec(&mut self, ctx: &mut Ctx, k: u64, case: &Value) {
        let seed_rng = ctx.rng(k);
        let (out, _m) = guarded(Budgets::default(), || {
            let mut bad: Vec<(String, Value)> = Vec::new();
            let mut fps: Vec<u64> = Vec::new();
            let mut n = 0u64;
            let mut rng = seed_rng;
            if k < 256 {
                for lo in 0..256u32 {
                    let st = ((k as u32) << 8 | lo) as u16;
                    for b in 0..=255u8 {
                        let got = update_crc16(st, b);
                        let exp = ref_crc16_update(st, b);
                        n += 1;
                        if got != exp {
                            bad.push(("mismatch|crc16|update".into(), json!({"state": st, "byte": b, "got": got, "expected": exp})));
                        }
                    }
                    fps.push(crate::rng::mix(1, (st as u64) << 16 | update_crc16(st, 0x5a) as u64));
                }
            } else if k < 512 {
                let a = (k - 256) as u8;
                for b in 0..=255u8 {
                    let s = [a, b];
                    let got = get_crc16(&s);
                    let exp = ref_crc16(&s);
                    n += 1;
                    if got != exp {
                        bad.push(("mismatch|crc16|get".into(), json!({"bytes": s, "got": got, "expected": exp})));
                    }
                    fps.push(crate::rng::mix(2, (a as u64) << 24 | (b as u64) << 16 | got as u64));
                }
            } else if k < 528 {
                let row = (k - 512) as usize;
                for i in 0..256usize {
                    let exp = if row == 0 {
                        ref_crc32_update(0, i as u8)
                    } else {
                        let p = CRC32_TABLE[row - 1][i];
                        (p >> 8) ^ ref_crc32_update(0, (p & 0xFF) as u8)
                    };
                    let got = CRC32_TABLE[row][i];
                    n += 1;
                    if got != exp {
                        bad.push(("mismatch|crc32|table".into(), json!({"row": row, "index": i, "got": got, "expected": exp})));
                    }
                    fps.push(crate::rng::mix(3, (row as u64) << 40 | (i as u64) << 32 | got as u64));
                }
            } else if k < 784 {
                let blk = (k - 528) as u32;
                for lo in 0..256u32 {
                    // spread the 2^16 sampled states over the 32-bit space: low byte varies fully
                    // (it selects the table entry), the block number fills the upper bytes
                    let st = (blk.wrapping_mul(0x0101_0101) & 0xFFFF_FF00).rotate_left(blk % 24) ^ lo ^ (blk << 8);
                    for b in 0..=255u8 {
                        let got = update_crc32(st, b);
                        let exp = ref_crc32_update(st, b);
                        n += 1;
                        if got != exp {
                            bad.push(("mismatch|crc32|update".into(), json!({"state": st, "byte": b, "got": got, "expected": exp})));
                        }
                    }
                    fps.push(crate::rng::mix(4, (st as u64) << 8 | (update_crc32(st, 1) & 0xFF) as u64));
                }
            } else {
                let (len, reps) = if k < N_FIXED { ((k - 784) as usize, 24) } else { (rng.usize(4097), 1) };
                for r in 0..reps {
                    let data: Vec<u8> = match r {
                        0 => vec![0u8; len],
                        1 => vec![0xFFu8; len],
                        2 => (0..len).map(|i| i as u8).collect(),
                        _ => rng.bytes(len),
                    };
                    let got = get_crc32(&data);
                    let exp = ref_crc32(&data);
                    let inc = !data.iter().fold(0xFFFF_FFFFu32, |c, b| update_crc32(c, *b));
                    n += 1;
                    if got != exp {
                        bad.push(("mismatch|crc32|get".into(), json!({"len": len, "data": data.iter().take(64).collect::<Vec<_>>(), "got": got, "expected": exp})));
                    }
                    if inc != got {
                        bad.push(("mismatch|crc32|incremental".into(), json!({"len": len, "data": data.iter().take(64).collect::<Vec<_>>(), "oneshot": got, "incremental": inc})));
                    }
                    // a CRC is a function of the bytes, not of where they lie: the same string at the other fifteen offsets of a
                    // 16-byte aligned block (an implementation that aligns its block loop treats those starts differently)
                    if len > 0 {
                        let mut block = vec![0u8; len + 16 + 16];
                        let base = (16 - (block.as_ptr() as usize) % 16) % 16;
                        for off in 1..16usize {
                            let start = base + off;
                            block[start..start + len].copy_from_slice(&data);
                            let g = get_crc32(&block[start..start + len]);
                            let g16 = get_crc16(&block[start..start + len]);
                            n += 1;
                            if g != exp {
                                bad.push(("mismatch|crc32|get-unaligned".into(), json!({"len": len, "offset_in_16_byte_block": off, "got": g, "expected": exp})));
                                break;
                            }
                            if g16 != ref_crc16(&data) {
                                bad.push(("mismatch|crc16|get-unaligned".into(), json!({"len": len, "offset_in_16_byte_block": off, "got": g16})));
                                break;
                            }
                        }
                    }
                    let g16 = get_crc16(&data);
                    let e16 = ref_crc16(&data);
                    let i16 = data.iter().fold(0u16, |c, b| update_crc16(c, *b));
                    if g16 != e16 || g16 != i16 {
                        bad.push(("mismatch|crc16|get-long".into(), json!({"len": len, "got": g16, "expected": e16, "incremental": i16})));
                    }
                    fps.push(crate::rng::mix(5, (len as u64) << 32 | got as u64));
                }
            }
            (bad, fps, n)
        });
        match out {
            Outcome::Done((bad, fps, n)) => {
                ctx.count("comparisons", n);
                let part = if k < 256 {
                    "crc16_update_states"
                } else if k < 512 {
                    "crc16_two_byte_strings"
                } else if k < 528 {
                    "crc32_table_rows"
                } else if k < 784 {
                    "crc32_update_blocks"
                } else if k < N_FIXED {
                    "crc32_lengths_0_48"
                } else {
                    "random_strings"
                };
                ctx.count(&format!("cases_{part}"), 1);
                for f in fps {
                    ctx.fp(f);
                }
                if ctx.want_sample() && (k % 97 == 5 || k >= N_FIXED) {
                    ctx.sample(json!({"case": k, "part": part, "comparisons": n}));
                }
                for (key, detail) in bad.into_iter().take(4) {
                    ctx.violation(&key, detail, case.clone());
                }
            }
            Outcome::Panicked(p) => ctx.panic_violation("crc", &p, case.clone()),
        }
        let _ = Tier::Quick;
    }
}
