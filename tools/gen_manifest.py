#!/usr/bin/env python3
"""Generates /verif/MANIFEST.json. Edit the tables below, not the JSON."""
import json, subprocess

HOOK_COMMITS = ["51bbd89", "f3ebd98"]

# id -> (technique, level text, level note, design ref)
CHECKS = {
 "C01": ("panic/abort monitor at the BufferParser::print_char boundary (catch_unwind + panic hook + supervised worker processes with write-ahead journal), enumerated control-function table x screen states plus seeded grammar/raw/mutated streams; debug-assertion UB precondition checks observed as aborts",
         "Every character of every generated stream goes through the real emulation under a panic monitor; worker deaths (abort, stack overflow) are attributed to the single case in BEGIN state. The complete CSI table (63 finals x 8 intermediates x <=2 boundary parameters) x 8 state prefixes x 4 screens and ESC/lead-in + every byte for all 10 emulations are enumerated; longer histories are sampled. Held = no panic/abort on any observed execution.",
         "Characters are the 256 byte values. Resource exhaustion (work budget, allocation refusal, nesting) is C03's verdict, not C01's. Coverage beyond the enumerated table is sampling.", "DESIGN.md §4 C01"),
 "C02": ("panic/abort monitor at the loader boundaries (catch_unwind + panic hook + supervised worker processes with write-ahead journal and death attribution) over a corpus derived from the engine's own writers: dense truncations, per-byte corruption tables, cross-extension loading, structure-aware mutation; debug-assertion UB precondition checks observed as aborts",
         "Each case is one call of Buffer::from_bytes / SauceData::extract / BitFont::from_bytes / TheDrawFont::from_tdf_bytes / Palette::load_palette / import_palette on the real code. Seeds are the output of every writer (14 formats, with and without SAUCE/comments, compressed and raw) plus fonts and palettes; every prefix length (dense near header and tail), every byte of the first 160 and last 140 bytes x 7 replacement values, every seed under 27 extensions, SAUCE tails built from field extremes, IcyDraw chunk payloads mutated below a valid CRC, little-endian field extremes, splices, inserts, deletes and random bytes. Held = no panic, abort or worker death on any observed case. The corpus contains files of every loader's own writer (ADF/IDF from ice-mode 80-column documents, ATASCII, a hand-made PETSCII file); every decimal number written in a seed is replaced by 14 extremes up to 2^64-1 (text-number class). A violation about to be shrunk is journalled first, so a worker death during shrinking cannot lose it.",
         "Resource exhaustion (allocation refusal, work budget) is C03's verdict. PaletteFormat::Ase import is todo!() in the engine and listed as a known finding. Coverage beyond the enumerated tables is sampling.", "DESIGN.md §4 C02"),
 "C03": ("logical work counter (cfg hook ticks), counting global allocator, nesting guard and per-run CPU clock as runtime monitors; absolute-bound oracle plus metamorphic saturation oracle over parameter magnitudes; worker-death attribution for allocation refusal / stack overflow / CPU hang",
         "Each template (complete CSI table with numeric slots, macro/sixel/font/margin families) is executed on the real engine with every slot at W*H+1, 2^16, 10^6 and 2^31-1. The monitors decide on deterministic counts (ticks, bytes requested, nesting depth), not wall-clock: ticks <= 16(n+1)WH*max(W,H), peak allocation <= 64MiB+4096n, nesting <= 32, and no growth beyond 2x between magnitudes >= 2^16. The CSI table is complete for parameter vectors of length <= 3 in quick and <= 6 in thorough. The CSI table also runs as the content of an .ans file (a file buffer does not clamp the cursor to a screen), and every decimal number of the text seeds of the loader corpus is a numeric slot (file-number class).",
         "One tick per cell/pixel/glyph operation at the hook sites; loops without a tick are only seen by the 2 s CPU clock and the 60 s supervisor watchdog. Bounds are generous constants chosen by the harness; macro replay (65536 chars) and sixel (2048 px) limits of the engine are treated as fixed constants.", "DESIGN.md §4 C03"),
 "C04": ("write->parse differential on the real ANSI writer and parser with an observational per-cell oracle (glyph bitmap, displayed foreground/background where the glyph has such pixels, blink), cycling through all 2304 option configurations x 3 ice modes, violations shrunk over options and cells",
         "Every boolean save option combination (2^8) x 3 screen preparations x 3 control-character modes is exercised with generated buffers (24 per configuration in quick, 300 in thorough) whose rows are shaped for the substitutions (runs, blank runs on black / colour / blinking, rows ending at the margin, empty and full rows) and whose cells cover CP437 incl. NUL/0xFF/control codes, DOS/xterm/RGB colours and all attributes. The loaded buffer must show the same picture in every cell.",
         "Equality is observational, as the statement words it; UTF-8 output is excluded.", "DESIGN.md §4 C04"),
 "C05": ("write->read differential on the real writers/loaders with an observational per-cell oracle (glyph bitmap, displayed colours, blink), independent reference decoders for BIN/ADF/IDF/Tundra reading the same bytes (three-way agreement), and load->save->load stability on accepted files incl. mutated ones",
         "Generated documents in each format's domain (XBin up to 4096 wide with 1 or 2 fonts of height 1..=32 and six-bit palettes, BIN even widths, ADF/IDF ice 8x16, Tundra 24-bit) with forced classes (heights <25/=25/>25, control-range characters, second-font cells) are saved, decoded by a reference decoder, loaded and compared on size, shown cells, font page, ice mode, fonts and palette, then re-saved and re-loaded. Seed files and mutated seeds that the loader accepts are checked for re-save stability.",
         "Cells are compared by what they show; palette colours at six-bit precision where the format stores six bits.", "DESIGN.md §4 C05"),
 "C06": ("strict specification decoder (reference model written from x_bin.htm) applied to the bytes the real writer emits, plus three-way loader differential; exhaustive small-scope row enumeration packed 4096 rows per buffer",
         "All rows of width 1..=7 over 3 chars x 3 attributes x 2 font pages (6.1e8 rows, thorough; widths 1..=6 in quick) and width 1..=10 over a 2x2 alphabet are saved compressed and decoded by an independent decoder that enforces run length 1..=64, no run across a row boundary, exact row width and no trailing bytes; decoded bytes must equal the source incl. the font-page bit; the engine's loader must give the same cells for compressed and uncompressed output. Random buffers up to 200x30 add long runs around the 64-cell limit.",
         "Rows are independent in this format, which is what makes packing many rows into one buffer an exhaustive enumeration of row neighbourhoods.", "DESIGN.md §4 C06"),
 "C07": ("write->read differential on the real IcyDraw (.icy) writer and loader with a field-by-field comparator over generated documents (runtime round-trip monitor), violations shrunk over layers, cells and fonts",
         "Documents with 1..=6 layers of every flag combination, mode, colour tag, offset (negative too), size incl. 0 and > 255, Unicode and 300-character titles, short- and long-form cells incl. characters above 0xFFFF, colours above 255 and the transparent colour, palettes of 1..=300 colours, font slots up to 300 with built-in and custom glyphs, with and without SAUCE are saved and loaded; size, modes, every layer property, every cell inside the layer size, palette, every font slot and the SAUCE fields must come back. Loader robustness on mutated chunk streams is C02/C03's matter. Palettes include prefixes, copies, extensions and one-colour variations of the stock DOS palette; slot 0 also holds built-in pages whose names exceed the SAUCE font field, with SAUCE.",
         "Sizes stay mostly below 40x20 because every save PNG-encodes a preview. Invisible cells are compared as invisible only.", "DESIGN.md §4 C07"),
 "C08": ("recorded operation histories on the real EditState checked against snapshots taken at every operation boundary (history + snapshot model): full undo walk, full redo walk, random undo/redo walk and redo-discard check, exhaustive short histories plus seeded long ones, violations shrunk by delta debugging over operations and layers",
         "After every operation that returns Ok the harness records (undo stack length, snapshot of size, modes, palette, fonts, SAUCE and per layer position, properties, size, offset and every cell get_char shows). Undo must return Ok, never panic and bring back, at every stack length that is an operation boundary, the snapshot of that boundary; redo likewise up to the final state; both rounds are run twice; a random walk over undo/redo revisits the boundaries; a new edit after an undo must empty the redo history. All histories of length <=2 over a 71-operation instantiated alphabet on 3 documents are enumerated (length 3: complete in thorough, 20000 sampled in quick) plus 30k (quick) / 400k (thorough) random histories of up to 40 operations on 1..=3-layer documents with alpha, offset, hidden and locked layers. The alphabet (71 instantiated operations) includes the font-table, palette-replacement, SAUCE, layer-property, floating-layer and sixel-paste operations; documents come in every font / ice / palette mode with up to three fonts, bright backgrounds and blinking cells.",
         "Selection, caret and current layer are editor state, not document state. Cells hidden by a smaller layer size are compared when an undo makes them visible again. An operation that panics or returns Err ends the history before it (counted in the evidence; C08 speaks about operations that report success).", "DESIGN.md §4 C08"),
 "C12": ("render differential on the real renderer: Buffer::render_to_rgba of a document and of ColorOptimizer::optimize(document) compared byte for byte, first differing pixel mapped back to its cell (runtime observational oracle)",
         "Documents of 1..=4 layers whose font slot 0 cycles through every built-in font page 0..=42 and every SAUCE font, cells over all 256 glyphs with the blank glyphs and the solid block over-represented, DOS and RGB colours, bold, both whitespace settings; every (font page, glyph) pair is rendered at least once in thorough.",
         "The rendered picture (blink off) is the definition of 'looks the same'.", "DESIGN.md §4 C12"),
 "C13": ("metamorphic runtime monitor on the real compositor Buffer::get_char: six stacking laws checked at every position of the bounding box plus border before and after an invisible transformation, and a 15-line reference compositor on the fragment without modes/transparent colours/overlay",
         "Stacks of 1..=5 layers with every combination of mode, alpha, visibility, offset and sparse content incl. transparent-colour half blocks and an optional overlay; laws L1 (empty alpha layer insertion), L2 (hidden layer content), L3 (translation), L4 (opaque layer hides everything below, including under its own transparent-colour cells), L5 (moving a layer changes only covered positions), L6 (reference compositor). L7 (topmost cell supplies glyph and own colours with transparent-colour cells), L8 (invisible cells of alpha layers carrying a payload), L9 (the half of a lower half-block cell behind the topmost cell's solid half never shows), L10 (glyphs stored in attributes-mode layers are irrelevant).",
         "Invisible results are compared as invisible only.", "DESIGN.md §4 C13"),
 "C09": ("runtime invariant assertion after every print_char (cursor inside visible window, fixed 40x24 grid), exhaustive <=3-token sequences + seeded streams, violations shrunk by delta debugging",
         "The geometry invariant is evaluated after every character of every stream. All <=2-token sequences over a ~230-token alphabet and (thorough) all 3-token sequences over the 70-token core alphabet x 5 sizes x {fresh, scrollback} are enumerated; byte pairs for the non-CSI emulations; random streams up to 4 KiB.",
         "Streams are not checked after their first ResizeTerminal action. Streams ending in a panic are C01's matter.", "DESIGN.md §4 C09"),
 "C20": ("panic/abort monitor + per-command pixel work budget (cfg hook ticks) + virtual blocking monitor (hook before the sleep) + picture-size assertion after every command, enumerated command tables and seeded streams for RIPscrip and IGS",
         "Every RIP level-0/1/9 command x parameter length 0..=24 x {0,1,Z} and every string over {0,1,Z} up to length 6, every IGS command x 0..=12 parameters x 7 value classes are enumerated; random mixed / truncated / over-long streams with state prefixes, loops and chains are sampled. Each command may spend at most 16x the canvas size in pixel operations; get_picture_data() must return width*height*4 bytes after every command; any sleep request raises. Every RIP command also runs with in-range coordinates on six viewports (offset, windowed, tiny) followed by a flood fill; the IGS drawing probe contains every state-dependent shape.",
         "RIP file commands run against an empty scratch directory. Known unimplemented feature (button label orientations, todo!()) is listed in known_findings.json.", "DESIGN.md §4 C20"),
 "C10": ("raw-bits runtime monitor over every stored char / String after each case (volatile u32 reads, str::from_utf8), debug-assertion UB precondition aborts observed via worker-death attribution, and the Miri interpreter on the unchecked-conversion sites (thorough)",
         "Every value of the quantifier's finite parts is executed on the real code: DECFRA fill character 0..=0x110010 (thorough: every value, quick: every 4th plus all surrogates and boundaries and 2^k+-1), all 65536 clipboard cell values, IcyDraw long-form cells with all 2048 surrogates / boundaries / random u32 in first and continuation chunks, invalid-UTF-8 titles and font names, glyph counts up to 2^17, all 256x256 hex-macro pairs. After each case every char the engine stores or returns is range-checked from its raw bits. Thorough also runs 6 Miri workloads (fill, hexmacro, clipboard, font, xbin transmute, icy) which report invalid-value construction even if the value is never read.",
         "The raw-bits monitor only sees values that are still stored after the call; transient invalid values are seen by the debug-assertion precondition checks and by Miri on the listed scenarios only.", "DESIGN.md §4 C10"),
 "C11": ("independent SAUCE reference reader/writer (from the Revision-5 layout) against the real writer/reader, per-variant projection model of the metadata after load, and differential loading of content vs content+trailer",
         "For each of the ten SAUCE-writing formats, documents with generated metadata of every field length, 0..=255 comments and widths up to 1000 are saved and (a) parsed by a reference reader, (b) loaded and compared with what the variant can carry; the exactness of the cut is checked by sauce_header_len == trailer length and cell equality of content vs content+trailer, including look-alike markers, empty and 127/128/129-byte contents, and foreign (reference-written, NUL-padded, EOF-less) trailers.",
         "Ice flag and font name carried by a file are those of the document (ice mode, font 0 name).", "DESIGN.md §4 C11"),
 "C14": ("recorded event log of harness-controlled decode completions (gate hook) checked offline against a sequential model; direct assertions on decoder output; Miri data-race/UB detection with 16 scheduler seeds (thorough)",
         "Schedules: for k<=4 images in flight all k! completion orders x all 2^k poll placements x 14 geometry classes (6188 schedules) are executed with real threads held in the gate; every poll runs on a helper thread while every decoder it could wait for is held by the harness (not returning within 6 s = blocked); the log of what is on screen after each step is checked against 'fold arrivals in order over the longest finished prefix'. Payloads: seeded sixel payloads (20k quick / 2M thorough) must decode to width*height*4 bytes consistent with a declared raster. Three-parameter raster attributes are checked under either reading of the third parameter (height, as the engine reads it, or minimum width).",
         "Decode durations are not enumerated (order and poll placement determine the shared state). Images are identified by colour/position/size.", "DESIGN.md §4 C14"),
 "C15": ("write->parse differential on the real writers and parsers of the six text formats with a per-cell oracle (character, displayed colours / inverse video), violations shrunk over cells",
         "Buffers of width 80 (40 ATASCII), height 1..=40, printable CP437 minus lead-ins, all fg 0..=15 x bg 0..=7 attribute sequences, rows of every length incl. full width, 3 screen preparations: every cell up to the end of its row must come back.",
         "Printable excludes C0, DEL and 0xFF (control codes of the underlying emulation).", "DESIGN.md §4 C15"),
 "C16": ("lock-step execution of the real Palette against a Vec reference model over seeded operation histories (runtime assertion after every insert), export->import differential for 5 file formats, exhaustive 64^3 six-bit codec enumeration",
         "Histories of up to 40 insert/set/push/resize/get operations on palettes of 0..=300 colours are run on the real Palette and a reference vector; after every insert the stability conditions of the property are asserted. Palettes of 0..=256 colours with awkward title/author/description texts are exported and re-imported in every format. All 262144 six-bit colours and the ADF EGA codec are enumerated.",
         "Growing resize from fewer than 16 colours is not modelled.", "DESIGN.md §4 C16"),
 "C17": ("round-trip differential monitors on the real encoders/decoders (PSF2, raw, DCS through the real parser, XBin/ADF/IDF/IcyDraw embedding) with bit-exact glyph comparison, plus an independent TDF reference reader for the writer side",
         "Every built-in font page 0..=42 and every SAUCE font through all 10 paths, and seeded fonts of every height 1..=32 with 256/512 glyphs of arbitrary bytes. TheDraw fonts of all three types, 0..=94 glyphs, bundles up to 34 fonts are written, read by an independent reader written from the file layout, and re-read by the engine. The IcyDraw embedding also runs under empty, non-ASCII and long font names.",
         "Fonts are embedded under a non-default name. Raw data that starts with a PSF magic number is a known finding (format sniffing).", "DESIGN.md §4 C17"),
 "C18": ("exhaustive enumeration of the codec domains against round-trip oracles (runtime assertion monitor)",
         "Complete enumeration of the finite domain stated in the property (256 bytes x 3 modes, all expressible attribute tuples, 256 CP437 + 128 ATASCII codes, 63 typed characters x 5 converters), each executed on the real codecs under the panic monitor; exhaustive, so the verdict covers every input of the quantifier.",
         "Trusts the harness's definition of 'expressible in a mode' (image of from_u8) and of the displayed foreground (bold folding).", "DESIGN.md §4 C18"),
 "C19": ("exhaustive enumeration + bit-at-a-time reference model (differential runtime monitor)",
         "All 2^16 CRC-16 states x 256 bytes, all 2^16 two-byte strings, all 16x256 CRC-32 table entries against their defining recurrence, 2^16 CRC-32 states x 256 bytes and lengths 0..=48 are enumerated completely against a bitwise reference; random strings up to 4 KiB are sampled on top.",
         "Trusts the 10-line bitwise reference CRCs in harness/src/props/c19.rs as the definition.", "DESIGN.md §4 C19"),
}

NOT_YET = {}

def main():
    props = [json.loads(l) for l in open("/verif/properties.jsonl")]
    checks = []
    na = []
    for p in props:
        pid = p["id"]
        if pid in CHECKS:
            tech, text, note, ref = CHECKS[pid]
            checks.append({
                "property_id": pid,
                "quick_cmd": f"./check {pid} --tier quick",
                "thorough_cmd": f"./check {pid} --tier thorough",
                "evidence_file": f"/verif/evidence/{pid}.json",
                "replay_cmd_template": f"./check {pid} --replay {{path}}",
                "engine": "vcheck",
                "level_claimed": {"category": "exploration", "text": text, "design_ref": ref},
                "level_note": note,
                "technique": tech,
            })
        else:
            na.append({"property_id": pid, "reason": NOT_YET.get(pid, "check under construction in this session; not claimed until its monitor is built and calibrated (runtime monitoring applies, see DESIGN.md §4)")})
    m = {
        "version": 1,
        "setup_cmd": "./check build",
        "hooks": {
            "guard": "--cfg icy_engine_verif",
            "enable": "harness/.cargo/config.toml sets rustflags = [\"--cfg\", \"icy_engine_verif\"]; icy_engine is a path dependency on /repo, so every ./check rebuilds it from the current working tree",
            "baseline_off_cmd": "cd /repo && cargo test --workspace --no-fail-fast --offline",
            "source_commits": HOOK_COMMITS,
            "add_only": True,
        },
        "engines": [{"name": "vcheck", "path": "/verif/harness", "serves_properties": sorted(CHECKS),
                     "kind_free_text": "Rust worker binary (real engine + monitors: panic/abort capture, work/allocation/nesting/blocking budgets via cfg hooks, reference models, relational oracles) supervised by /verif/check (python): sharding, write-ahead journals, worker-death attribution, known-finding matching, evidence"}],
        "checks": checks,
        "notes": "All verdicts are three-valued (exit 0 held / 1 violation / 2 inconclusive). Known genuine defects that are not repaired are listed in /verif/known_findings.json and reported as KNOWN-FINDING lines.",
        "not_applicable": na,
    }
    json.dump(m, open("/verif/MANIFEST.json", "w"), indent=1)
    print("checks:", len(checks), "not_applicable:", len(na))

main()
