#!/bin/bash
# tools/seedkit/setup.sh <PROP>...  : one scratch git worktree of /repo per property under /tmp/seed/<PROP> (outside /repo and /verif)
for p in "$@"; do
  git -C /repo worktree remove --force /tmp/seed/$p 2>/dev/null
  rm -rf /tmp/seed/$p
  mkdir -p /tmp/seed
  git -C /repo worktree add -q --detach /tmp/seed/$p HEAD && mkdir -p /tmp/seed/$p/OUT && cp /repo/Cargo.lock /tmp/seed/$p/Cargo.lock && echo "ready /tmp/seed/$p"
done
