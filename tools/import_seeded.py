#!/usr/bin/env python3
"""Copy a confirmed seeded change from a sub-agent worktree into /verif/seeded/<id>/ and record my confirmation."""
import json, os, shutil, sys, re
prop, variant = sys.argv[1], sys.argv[2]          # C01 a
src = f"/tmp/seed/{prop}/OUT/{variant}"
conf = None
for l in open(f"/tmp/seedkit/confirm_{prop}.log"):
    if l.startswith(f"{prop}/{variant}:"):
        conf = l.strip()
assert conf, "no confirmation line"
m = dict(re.findall(r"(\w+)=(\d+)", conf))
ok = m["applies"] == "0" and m["build"] == "0" and m["demo_clean_exit"] == "0" and m["demo_patched_exit"] != "0" and m["baseline_missing"] == "0" and m["passed"] == "227"
assert ok, conf
dst = f"/verif/seeded/{prop}{variant}"
os.makedirs(dst, exist_ok=True)
shutil.copy(f"{src}/patch.diff", f"{dst}/patch.diff")
shutil.copy(f"{src}/demo.rs", f"{dst}/demo.rs")
meta = json.load(open(f"{src}/meta.json"))
meta["property"] = prop
meta["author"] = "fresh sub-agent given only the property record and a scratch worktree"
meta["confirmed"] = {"by": "re-run in a scratch worktree (tools/import_seeded.py)", "applies_to_head": True, "builds": True, "pinned_tests_passing": 227, "baseline_missing": 0,
                     "demo_on_clean_tree": "passes", "demo_with_change": "fails (exit %s)" % m["demo_patched_exit"], "changed_lines": int(m["changed_lines"])}
json.dump(meta, open(f"{dst}/meta.json", "w"), indent=1)
print("imported", dst)
