//! C09 — cursor and fixed-grid geometry stay consistent under any stream.
use serde_json::{json, Value};

use crate::ctx::Ctx;
use crate::gen_stream;
use crate::props::c01::exec_stream;
use crate::stream::{StreamCase, EMUS};
use crate::Prop;

#[derive(Default)]
pub struct C09 {
    n_pairs: u64,
    n_triples: u64,
    n_bytes: u64,
    alphabet_len: u64,
    core_len: u64,
}

const SIZES: [(i32, i32); 5] = [(80, 25), (1, 1), (2, 2), (40, 24), (132, 60)];

/// the token alphabet for a w x h screen. The first `core` tokens are the ~70-token
/// alphabet of the quantifier (used for the exhaustive triples), the rest widens pairs.
fn alphabet(w: i32, h: i32) -> (Vec<Vec<u8>>, usize) {
    let mut core: Vec<Vec<u8>> = Vec::new();
    let mut extra: Vec<Vec<u8>> = Vec::new();
    let size = w.max(h) as i64;
    let mid = (size / 2).max(2);
    let vals: [Option<i64>; 7] = [None, Some(0), Some(1), Some(mid), Some(size), Some(size + 1), Some(9999)];
    // printables and C0
    for t in [&b"a"[..], b" ", b"\n", b"\r", b"\x0c", b"\x08", b"\x09", b"\x7f"] {
        core.push(t.to_vec());
    }
    {
        let full: Vec<u8> = vec![b'x'; w as usize];
        core.push(full);
    }
    // ESC functions
    for t in [&b"\x1b7"[..], b"\x1b8", b"\x1bc", b"\x1bD", b"\x1bM", b"\x1bE", b"\x1bH"] {
        core.push(t.to_vec());
    }
    // cursor / tab / scroll / erase / insert-delete with every parameter of the set
    let finals_core: &[u8] = b"ABCDEFGHdeaYZSTLM";
    let finals_extra: &[u8] = b"@PXbIgJK`fjk'";
    for (finals, dest_core) in [(finals_core, true), (finals_extra, false)] {
        for f in finals {
            for (vi, v) in vals.iter().enumerate() {
                let mut t = Vec::new();
                gen_stream::csi(&mut t, "", &[*v], "", *f);
                // keep the core at ~70 tokens: parameters {none, size+1, 9999} for the core finals
                if dest_core && matches!(vi, 0 | 5 | 6) {
                    core.push(t);
                } else {
                    extra.push(t);
                }
            }
        }
    }
    // two-parameter positioning
    for a in [Some(1i64), Some(size), Some(9999)] {
        for b in [None, Some(1i64), Some(size + 1)] {
            let mut t = Vec::new();
            gen_stream::csi(&mut t, "", &[a, b], "", b'H');
            extra.push(t);
        }
    }
    // margins, origin / wrap / insert modes, save / restore, reset
    for t in [
        format!("\x1b[2;{}r", (h - 1).max(1)),
        format!("\x1b[{};{}r", h, h),
        format!("\x1b[{};1r", h),
        "\x1b[r".to_string(),
        "\x1b[0;0r".to_string(),
        format!("\x1b[?69h\x1b[2;{}s", (w - 1).max(1)),
        "\x1b[?69l".to_string(),
        "\x1b[?6h".to_string(),
        "\x1b[?7l".to_string(),
        "\x1b[?7h".to_string(),
        "\x1b[4h".to_string(),
        "\x1b[s".to_string(),
        "\x1b[u".to_string(),
        "\x1b[!p".to_string(),
        "\x1b[3g".to_string(),
        "\x1b[=r".to_string(),
        format!("\x1b[=1;{}m", h + 1),
        format!("\x1b[=3;{}m", w + 1),
        "\x1b[1;1;1;1r".to_string(),
        format!("\x1b[1;{};1;{}r", h, w + 5),
        "\x1b[ @".to_string(),
        "\x1b[ A".to_string(),
        "\x1b[1~".to_string(),
        "\x1b[4~".to_string(),
        "\x1b[2J".to_string(),
    ] {
        if core.len() < 70 {
            core.push(t.into_bytes());
        } else {
            extra.push(t.into_bytes());
        }
    }
    let c = core.len();
    core.extend(extra);
    (core, c)
}

fn scrollback_prefix(h: i32) -> Vec<u8> {
    let mut v = Vec::new();
    for i in 0..(h + 4) {
        v.extend_from_slice(format!("{}\r\n", i % 10).as_bytes());
    }
    v
}

impl C09 {
    fn pair_case(&self, k: u64) -> StreamCase {
        let mut r = k;
        let sb = r % 2 == 1;
        r /= 2;
        let (w, h) = SIZES[(r % 5) as usize];
        r /= 5;
        let (alpha, _) = alphabet(w, h);
        let n = alpha.len() as u64;
        let a = (r % (n + 1)) as usize;
        r /= n + 1;
        let b = (r % n) as usize;
        let mut bytes = Vec::new();
        if a < alpha.len() {
            bytes.extend_from_slice(&alpha[a]);
        }
        bytes.extend_from_slice(&alpha[b]);
        StreamCase {
            emu: "ansi".into(),
            music: 0,
            w,
            h,
            alloc: !sb,
            prefix: if sb { scrollback_prefix(h) } else { vec![] },
            bytes,
        }
    }

    fn triple_case(&self, k: u64) -> StreamCase {
        let mut r = k;
        let sb = r % 2 == 1;
        r /= 2;
        let (w, h) = SIZES[(r % 5) as usize];
        r /= 5;
        let (alpha, c) = alphabet(w, h);
        let c = c as u64;
        let mut bytes = Vec::new();
        for _ in 0..3 {
            bytes.extend_from_slice(&alpha[(r % c) as usize]);
            r /= c;
        }
        StreamCase {
            emu: "ansi".into(),
            music: 0,
            w,
            h,
            alloc: !sb,
            prefix: if sb { scrollback_prefix(h) } else { vec![] },
            bytes,
        }
    }

    fn bytes_case(&self, k: u64) -> StreamCase {
        // non-ANSI emulations: [ESC] byte byte, on 2 states
        let mut r = k;
        let b2 = (r % 256) as u8;
        r /= 256;
        let b1 = (r % 257) as u16;
        r /= 257;
        let st = r % 2;
        r /= 2;
        let emu = ["petscii", "atascii", "viewdata", "mode7", "ascii", "avatar", "ctrla"][(r % 7) as usize];
        let (w, h) = if crate::stream::is_fixed_grid(emu) { (40, 24) } else { (80, 25) };
        let mut bytes = Vec::new();
        if b1 < 256 {
            bytes.push(b1 as u8);
        }
        bytes.push(b2);
        bytes.push(b'A');
        let prefix = if st == 1 {
            let mut v = Vec::new();
            for i in 0..(h + 3) {
                v.push(b'0' + (i % 10) as u8);
                v.push(match emu {
                    "petscii" => 0x0D,
                    "atascii" => 0x9B,
                    _ => b'\n',
                });
            }
            v
        } else {
            vec![]
        };
        StreamCase {
            emu: emu.into(),
            music: 0,
            w,
            h,
            alloc: true,
            prefix,
            bytes,
        }
    }

    fn random_case(&self, ctx: &Ctx, k: u64) -> StreamCase {
        let mut rng = ctx.rng(k);
        let emu = match rng.usize(10) {
            0..=3 => "ansi",
            4 => "viewdata",
            5 => "mode7",
            _ => *rng.pick(&EMUS),
        };
        let (w, h) = gen_stream::pick_size(&mut rng, emu);
        let prefix = gen_stream::state_prefix(&mut rng, emu, w, h);
        let n = if rng.chance(1, 10) { 2000 + rng.usize(2096) } else { 1 + rng.usize(300) };
        let bytes = if rng.chance(1, 6) { rng.bytes(n.min(600)) } else { gen_stream::token_stream(&mut rng, emu, w, h, n, false) };
        StreamCase {
            emu: emu.into(),
            music: 0,
            w,
            h,
            alloc: rng.bool(),
            prefix,
            bytes,
        }
    }

    fn case_for(&self, ctx: &Ctx, k: u64) -> (StreamCase, &'static str) {
        if k < self.n_pairs {
            (self.pair_case(k), "pairs")
        } else if k < self.n_pairs + self.n_triples {
            // in quick the triples are sampled: spread the index over the whole space
            let full = 2 * 5 * self.core_len.pow(3);
            let idx = if self.n_triples >= full { k - self.n_pairs } else { crate::rng::mix(ctx.seed, k) % full };
            (self.triple_case(idx), "triples")
        } else if k < self.n_pairs + self.n_triples + self.n_bytes {
            let full = 256 * 257 * 2 * 7;
            let i = k - self.n_pairs - self.n_triples;
            let idx = if self.n_bytes >= full { i } else { (i * 8 + crate::rng::mix(ctx.seed, k) % 8) % full };
            (self.bytes_case(idx), "bytes")
        } else {
            (self.random_case(ctx, k), "random")
        }
    }
}

impl Prop for C09 {
    fn id(&self) -> &'static str {
        "C09"
    }
    fn rule(&self) -> &'static str {
        "after every character (until the first ResizeTerminal action) the monitor asserts 0 <= caret.x <= width-1 and first_visible <= caret.y <= first_visible+height-1 (terminal size, Buffer::get_first_visible_line), and for Viewdata/Mode 7 buffer, layer and terminal size == 40x24. cases: (pairs) all sequences of <=2 tokens of the full alphabet (~230 tokens: printables, C0, ESC 7/8/c/D/M/E/H, every cursor/tab/scroll/erase/insert/delete function x {none,0,1,mid,size,size+1,9999}, margins, modes, save/restore, reset) x 5 sizes x {fresh, filled scrollback}; (triples) all 3-token sequences over the 70-token core alphabet (thorough: complete, quick: seeded sample); (bytes) [byte] byte for the 7 non-CSI emulations on 2 states; (random) seeded streams up to 4 KiB. distinct_nontrivial = distinct (emulation, result kinds, scrollback, stream head) fingerprints"
    }
    fn meta(&self, _ctx: &Ctx) -> Value {
        json!({"floor_evaluations": 10000, "floor_distinct": 500,
               "assumptions": ["a stream is no longer checked from its first ResizeTerminal action on (the quantifier excludes text-area resizes)",
                               "streams that end in a panic are C01's matter and are only counted here"]})
    }
    fn total(&mut self, ctx: &Ctx) -> u64 {
        let (alpha, core) = alphabet(80, 25);
        self.alphabet_len = alpha.len() as u64;
        self.core_len = core as u64;
        self.n_pairs = 2 * 5 * (self.alphabet_len + 1) * self.alphabet_len;
        let full = 2 * 5 * self.core_len.pow(3);
        self.n_triples = ctx.tier.pick(300_000.min(full), full);
        self.n_bytes = ctx.tier.pick(256 * 257 * 2 * 7 / 8, 256 * 257 * 2 * 7);
        self.n_pairs + self.n_triples + self.n_bytes + ctx.tier.pick(40_000, 1_500_000)
    }
    fn run_case(&mut self, ctx: &mut Ctx, k: u64) {
        let (case, class) = self.case_for(ctx, k);
        ctx.begin(k);
        exec_stream(ctx, &case, class, true, "geometry");
    }
    fn replay(&mut self, ctx: &mut Ctx, case: &Value) {
        let c: StreamCase = serde_json::from_value(case.clone()).expect("stream case");
        ctx.begin(0);
        exec_stream(ctx, &c, "replay", true, "geometry");
    }
}
