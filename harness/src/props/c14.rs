//! C14 — sixel images are complete rectangles and appear in arrival order.
//!
//! (1) payload part: direct assertions on `Sixel::parse_from` results.
//! (2) schedule part: recorded history + sequential model. The decode threads the
//!     ANSI parser spawns are held in the gate hook (H4); the harness chooses the
//!     completion order and the placement of the `update_sixel_threads` polls, logs
//!     what is on the screen after every poll, and an offline checker replays the
//!     log against the model "fold arrivals in order over the longest finished prefix".
use std::collections::HashMap;
use std::sync::{Arc, Condvar, Mutex};
use std::time::{Duration, Instant};

use icy_engine::{Buffer, BufferParser, Caret, Position, Sixel};
use serde::{Deserialize, Serialize};
use serde_json::{json, Value};

use crate::ctx::Ctx;
use crate::mon::{guarded, Budgets, Outcome};
use crate::rng::Rng;
use crate::Prop;

// ---------------------------------------------------------------- payload part

#[derive(Clone, Debug, Serialize, Deserialize)]
pub struct PayloadCase {
    pub payload: String,
}

fn gen_payload(rng: &mut Rng) -> String {
    let mut s = String::new();
    if rng.chance(1, 2) {
        // raster attributes: smaller / equal / larger than the data
        let w = rng.range(0, 40);
        let h = rng.range(0, 30);
        match rng.usize(6) {
            0 => s.push_str(&format!("\"1;1;{w}")),
            1 => s.push_str(&format!("\"{};{};{w};{h}", rng.range(0, 3), rng.range(0, 3))),
            _ => s.push_str(&format!("\"1;1;{w};{h}")),
        }
    }
    let rows = 1 + rng.usize(4);
    let late_raster = rng.chance(1, 4);
    for r in 0..rows {
        let n = rng.usize(12);
        for _ in 0..n {
            match rng.usize(10) {
                0 => {
                    s.push('#');
                    s.push_str(&rng.range(0, 20).to_string());
                    if rng.bool() {
                        s.push_str(&format!(";2;{};{};{}", rng.range(0, 100), rng.range(0, 100), rng.range(0, 100)));
                    } else if rng.chance(1, 3) {
                        s.push_str(&format!(";1;{};{};{}", rng.range(0, 360), rng.range(0, 100), rng.range(0, 100)));
                    }
                }
                1 | 2 => {
                    s.push('!');
                    let hi = if rng.chance(1, 10) { 500 } else { 30 };
                    s.push_str(&rng.range(0, hi).to_string());
                    s.push((0x3F + rng.usize(64) as u8) as char);
                }
                3 => s.push('$'),
                _ => s.push((0x3F + rng.usize(64) as u8) as char),
            }
        }
        if r + 1 < rows || rng.chance(1, 3) {
            s.push('-');
        }
        // raster attributes may also come (again) after data: the last four-parameter declaration is the one that holds
        if late_raster && r + 1 < rows && rng.chance(1, 2) {
            s.push_str(&format!("\"1;1;{};{}", rng.range(1, 40), rng.range(1, 30)));
        }
    }
    s
}

/// geometry model of a payload: (declared raster w,h if 4 parameters), and whether some
/// drawn pixel lies at a column >= declared width
fn model_extent(payload: &str) -> (Option<(i64, i64)>, i64, Option<i64>) {
    let b = payload.as_bytes();
    let mut i = 0;
    let mut declared = None;
    let mut declared3 = None;
    let mut first_raster = true;
    let (mut x, mut max_x): (i64, i64) = (0, 0);
    while i < b.len() {
        let c = b[i];
        match c {
            b'"' => {
                i += 1;
                let mut nums: Vec<i64> = vec![];
                let mut cur: Option<i64> = None;
                while i < b.len() && (b[i].is_ascii_digit() || b[i] == b';') {
                    if b[i] == b';' {
                        nums.push(cur.unwrap_or(0));
                        cur = Some(0);
                    } else {
                        cur = Some(cur.unwrap_or(0).saturating_mul(10).saturating_add((b[i] - b'0') as i64));
                    }
                    i += 1;
                }
                if let Some(c) = cur {
                    nums.push(c);
                }
                if nums.len() == 4 {
                    // a later declaration replaces an earlier one (columns drawn before it still count against its width)
                    declared = Some((nums[2], nums[3]));
                }
                // the short form "Pan;Pad;Pn (only when it is the payload's only raster attribute, before any data)
                if nums.len() == 3 && first_raster && max_x == 0 {
                    declared3 = Some(nums[2]);
                }
                if !first_raster {
                    declared3 = None;
                }
                first_raster = false;
                continue;
            }
            b'#' => {
                i += 1;
                while i < b.len() && (b[i].is_ascii_digit() || b[i] == b';') {
                    i += 1;
                }
                continue;
            }
            b'!' => {
                i += 1;
                let mut n: i64 = 0;
                let mut any = false;
                while i < b.len() && b[i].is_ascii_digit() {
                    n = n.saturating_mul(10).saturating_add((b[i] - b'0') as i64);
                    any = true;
                    i += 1;
                }
                if i < b.len() && any {
                    let d = b[i];
                    if d >= b'?' && d <= b'~' {
                        if d != b'?' && n > 0 {
                            max_x = max_x.max(x + n);
                        }
                        x += n;
                    } else if d == b'$' {
                        x = 0;
                    } else if d == b'-' {
                        x = 0;
                    }
                    i += 1;
                }
                continue;
            }
            b'$' | b'-' => x = 0,
            d if d >= b'?' && d <= b'~' => {
                if d != b'?' {
                    max_x = max_x.max(x + 1);
                }
                x += 1;
            }
            _ => {}
        }
        i += 1;
    }
    (declared, max_x, declared3)
}

fn check_payload(ctx: &mut Ctx, case: &PayloadCase) {
    let payload = case.payload.clone();
    let (out, _m) = guarded(Budgets::default(), || Sixel::parse_from(Position::default(), 1, 2, [0, 0, 0, 0], &payload));
    ctx.count("payloads_decoded", 1);
    match out {
        Outcome::Done(Ok(s)) => {
            let (w, h) = (s.get_width(), s.get_height());
            let len = s.picture_data.len();
            ctx.fp(crate::rng::mix((w as u64) << 32 | h as u64, (case.payload.contains('"') as u64) << 1 | case.payload.contains('-') as u64));
            ctx.count("payloads_ok", 1);
            if ctx.want_sample() && w > 0 && h > 6 {
                ctx.sample(json!({"part": "payload", "payload": case.payload, "width": w, "height": h, "data_len": len}));
            }
            if w < 0 || h < 0 || len != (w as usize) * (h as usize) * 4 {
                ctx.violation(
                    "sixel-not-rectangular",
                    json!({"payload": case.payload, "width": w, "height": h, "data_len": len, "expected_len": (w as i64) * (h as i64) * 4}),
                    json!({"payload": serde_json::to_value(case).unwrap()}),
                );
                return;
            }
            let (declared, max_x, declared3) = model_extent(&case.payload);
            if let (None, Some(n)) = (declared, declared3) {
                // three parameters declare one extent. The engine reads it as the picture height; the DEC manual calls the
                // third parameter the horizontal extent. "Consistent with the declared size" is accepted under either reading
                // (height == n, or width >= n); a picture that honours neither is not.
                if (1..=2048).contains(&n) && h as i64 != n && (w as i64) < n {
                    ctx.violation(
                        "sixel-declared-extent-3",
                        json!({"payload": case.payload, "declared": n, "width": w, "height": h, "widest_drawn_column": max_x}),
                        json!({"payload": serde_json::to_value(case).unwrap()}),
                    );
                    return;
                }
            }
            if let Some((dw, dh)) = declared {
                if (0..=2048).contains(&dw) && (0..=2048).contains(&dh) {
                    let bad_h = h as i64 != dh;
                    // a picture without rows has no width to speak of
                    // (a width declared again after data: the engine keeps the wider of what it has; only a single leading
                    // declaration pins the width)
                    let redeclared = case.payload.matches('"').count() > 1 || !case.payload.starts_with('"');
                    let bad_w = !redeclared && dh > 0 && ((w as i64) < dw || (max_x <= dw && w as i64 != dw));
                    if bad_h || bad_w {
                        ctx.violation(
                            if bad_h { "sixel-declared-height" } else { "sixel-declared-width" },
                            json!({"payload": case.payload, "declared": [dw, dh], "width": w, "height": h, "widest_drawn_column": max_x}),
                            json!({"payload": serde_json::to_value(case).unwrap()}),
                        );
                    }
                }
            }
        }
        Outcome::Done(Err(_)) => {
            ctx.count("payloads_err", 1);
            ctx.fp(7);
        }
        Outcome::Panicked(p) => {
            ctx.count("payload_decodes_ended_by_panic_(C01)", 1);
            let _ = p;
        }
    }
}

// ---------------------------------------------------------------- schedule part

#[derive(Clone, Debug, Serialize, Deserialize)]
pub struct Img {
    /// cell position
    pub x: i32,
    pub y: i32,
    /// pixel size
    pub w: i32,
    pub h: i32,
    /// decode fails (invalid sixel character)
    pub fails: bool,
    /// pixel aspect of the raster attributes: None = "1;1", Some((0, 0)) = no raster attributes at all (the aspect of the
    /// DCS default, the size from the data), Some((pan, pad)) otherwise. What is on the screen is the pixel rectangle in
    /// every case - the aspect numbers are kept with the image, the renderer does not stretch it
    #[serde(default)]
    pub aspect: Option<(u8, u8)>,
}

#[derive(Clone, Debug, Serialize, Deserialize)]
pub struct SchedCase {
    pub class: String,
    pub images: Vec<Img>,
    /// completion order: order[j] = arrival index released at step j
    pub order: Vec<usize>,
    /// poll after step j?
    pub polls: Vec<bool>,
    /// this many of the sequences (the last ones) arrive late: after the first release has finished (and was polled or
    /// not), before the second
    #[serde(default)]
    pub late: usize,
}

struct GateState {
    released: HashMap<String, bool>,
    entered: HashMap<String, bool>,
}

type Gate = Arc<(Mutex<GateState>, Condvar)>;

fn payload_for(i: usize, img: &Img) -> String {
    // unique colour per image: red = 10*(i+1) percent
    let mut s = match img.aspect {
        Some((0, 0)) => format!("#{};2;{};0;0", i + 1, 10 * (i + 1)),
        Some((pan, pad)) => format!("\"{pan};{pad};{};{}#{};2;{};0;0", img.w, img.h, i + 1, 10 * (i + 1)),
        None => format!("\"1;1;{};{}#{};2;{};0;0", img.w, img.h, i + 1, 10 * (i + 1)),
    };
    if img.fails {
        s.push('\u{1}'); // < '?' : InvalidSixelChar
    }
    let bands = (img.h + 5) / 6;
    for b in 0..bands {
        s.push_str(&format!("!{}~", img.w));
        if b + 1 < bands {
            s.push('-');
        }
    }
    s
}

fn rect_of(img: &Img) -> (i32, i32, i32, i32) {
    (img.x * 8, img.y * 16, img.w, img.h)
}

fn contains(outer: (i32, i32, i32, i32), inner: (i32, i32, i32, i32)) -> bool {
    inner.0 >= outer.0 && inner.1 >= outer.1 && inner.0 + inner.2 <= outer.0 + outer.2 && inner.1 + inner.3 <= outer.1 + outer.3
}

/// the sequential model: fold arrivals 0..prefix in order
fn model(images: &[Img], prefix: usize) -> Vec<usize> {
    let mut shown: Vec<usize> = Vec::new();
    for (i, img) in images.iter().enumerate().take(prefix) {
        if img.fails {
            continue;
        }
        let r = rect_of(img);
        shown.retain(|o| !contains(r, rect_of(&images[*o])));
        shown.push(i);
    }
    shown
}

#[derive(Debug, Serialize)]
struct Event {
    step: usize,
    released: Option<usize>,
    polled: bool,
    poll_result: String,
    queue_len: usize,
    sixels: Vec<i64>,
}

fn identify(buf: &Buffer, images: &[Img]) -> Vec<i64> {
    buf.layers[0]
        .sixels
        .iter()
        .map(|s| {
            // identify by colour (red channel of the first opaque pixel), position and size
            let red = s.picture_data.chunks(4).find(|p| p[3] != 0).map(|p| p[0]).unwrap_or(0) as i32;
            for (i, img) in images.iter().enumerate() {
                let exp_red = (10 * (i as i32 + 1)) * 255 / 100;
                if red == exp_red && s.position == Position::new(img.x, img.y) && s.get_width() == img.w && s.get_height() == img.h {
                    return i as i64;
                }
            }
            -1
        })
        .collect()
}

fn run_schedule(case: &SchedCase) -> (Vec<Event>, Vec<(String, Value)>) {
    let k = case.images.len();
    let gate: Gate = Arc::new((
        Mutex::new(GateState {
            released: HashMap::new(),
            entered: HashMap::new(),
        }),
        Condvar::new(),
    ));
    let payloads: Vec<String> = case.images.iter().enumerate().map(|(i, img)| payload_for(i, img)).collect();
    {
        let g = gate.clone();
        icy_engine::verif::set_sixel_gate(Some(Arc::new(move |_pos, data| {
            let (m, cv) = &*g;
            let mut st = m.lock().unwrap();
            st.entered.insert(data.to_string(), true);
            cv.notify_all();
            let deadline = Instant::now() + Duration::from_secs(120);
            while !st.released.get(data).copied().unwrap_or(false) {
                let (s2, to) = cv.wait_timeout(st, Duration::from_millis(200)).unwrap();
                st = s2;
                if to.timed_out() && Instant::now() > deadline {
                    break;
                }
            }
        })));
    }
    let release = |i: usize| {
        let (m, cv) = &*gate;
        m.lock().unwrap().released.insert(payloads[i].clone(), true);
        cv.notify_all();
    };
    let mut events: Vec<Event> = Vec::new();
    let mut bad: Vec<(String, Value)> = Vec::new();

    let mut buf = Buffer::create((80, 25));
    buf.is_terminal_buffer = true;
    let mut caret = Caret::default();
    let mut parser = icy_engine::ansi::Parser::default();
    // the first release must be of a sequence that has arrived
    let late = if case.order.first().map(|o| *o >= k - case.late.min(k)).unwrap_or(true) { 0 } else { case.late.min(k.saturating_sub(1)) };
    let fed_now = std::cell::Cell::new(0usize);
    let feed = |buf: &mut Buffer, caret: &mut Caret, parser: &mut icy_engine::ansi::Parser, from: usize, to: usize| {
        for (i, img) in case.images.iter().enumerate().take(to).skip(from) {
            let seq = format!("\x1b[{};{}H\x1bPq{}\x1b\\", img.y + 1, img.x + 1, payloads[i]);
            for ch in seq.chars() {
                let _ = parser.print_char(buf, 0, caret, ch);
            }
        }
    };
    feed(&mut buf, &mut caret, &mut parser, 0, k - late);
    fed_now.set(k - late);
    if buf.sixel_threads.len() != fed_now.get() {
        bad.push(("sixel-threads-not-queued".into(), json!({"expected": fed_now.get(), "queued": buf.sixel_threads.len()})));
    }
    let mut released = vec![false; k];
    let mut popped = 0usize; // handles the engine has taken from the front of the queue
    let poll = |buf: &mut Buffer, step: usize, rel: Option<usize>, released: &Vec<bool>, popped: &mut usize, events: &mut Vec<Event>, bad: &mut Vec<(String, Value)>| {
        // "never blocks": run the poll on a helper thread. Every decoder it could wait for is held in the gate by this
        // harness, so a poll that has not returned after POLL_LIMIT_S and returns once the gates are opened was blocked
        let (tx, rx) = std::sync::mpsc::channel();
        let res = std::thread::scope(|s| {
            s.spawn(|| {
                let r = buf.update_sixel_threads();
                let _ = tx.send(match &r {
                    Ok(b) => format!("Ok({b})"),
                    Err(e) => format!("Err({e})"),
                });
            });
            match rx.recv_timeout(Duration::from_secs(POLL_LIMIT_S)) {
                Ok(r) => r,
                Err(_) => {
                    // blocked: release everything so that the scope can end
                    for i in 0..k {
                        release(i);
                    }
                    "BLOCKED".to_string()
                }
            }
        });
        *popped = fed_now.get() - buf.sixel_threads.len();
        let shown = identify(buf, &case.images);
        if res == "BLOCKED" {
            BLOCKED_POLLS.fetch_add(1, std::sync::atomic::Ordering::SeqCst);
            bad.push(("poll-blocks".into(), json!({"step": step, "held": released.iter().enumerate().filter(|(_, r)| !**r).map(|(i, _)| i).collect::<Vec<_>>()})));
        }
        events.push(Event {
            step,
            released: rel,
            polled: true,
            poll_result: res,
            queue_len: buf.sixel_threads.len(),
            sixels: shown,
        });
    };
    for (step, &i) in case.order.iter().enumerate() {
        release(i);
        released[i] = true;
        // wait until that decode really finished (its handle sits at index i - popped)
        if i >= popped {
            let idx = i - popped;
            let t0 = Instant::now();
            while let Some(h) = buf.sixel_threads.get(idx) {
                if h.is_finished() || t0.elapsed() > Duration::from_secs(30) {
                    break;
                }
                std::thread::sleep(Duration::from_micros(100));
            }
        }
        if case.polls.get(step).copied().unwrap_or(false) {
            poll(&mut buf, step, Some(i), &released, &mut popped, &mut events, &mut bad);
        } else {
            events.push(Event {
                step,
                released: Some(i),
                polled: false,
                poll_result: String::new(),
                queue_len: buf.sixel_threads.len(),
                sixels: identify(&buf, &case.images),
            });
        }
        if step == 0 && fed_now.get() < k {
            // the late sequences arrive now: a decode has finished (polled or not) and others may still be held
            let (before, fed) = (buf.sixel_threads.len(), fed_now.get());
            feed(&mut buf, &mut caret, &mut parser, fed, k);
            if buf.sixel_threads.len() != before + (k - fed) {
                bad.push(("sixel-threads-not-queued".into(), json!({"expected": before + (k - fed), "queued": buf.sixel_threads.len(), "late": k - fed})));
            }
            fed_now.set(k);
        }
    }
    // drain: poll until the queue is empty (a failing decode makes one poll return Err)
    for extra in 0..(k + 2) {
        if buf.sixel_threads.is_empty() {
            break;
        }
        poll(&mut buf, k + extra, None, &released, &mut popped, &mut events, &mut bad);
    }
    icy_engine::verif::set_sixel_gate(None);
    crate::stream::install_accounting_gate();
    (events, bad)
}

/// offline checker over the recorded event log
fn check_log(case: &SchedCase, events: &[Event]) -> Vec<(String, Value)> {
    let k = case.images.len();
    let mut bad = Vec::new();
    let mut released = vec![false; k];
    let mut delivered_prefix = 0usize; // arrivals handed to the screen so far (model)
    let mut ever_seen: Vec<bool> = vec![false; k];
    let mut gone: Vec<bool> = vec![false; k];
    for e in events {
        if let Some(i) = e.released {
            released[i] = true;
        }
        // a poll may hand over any further finished arrivals, but only a prefix of the arrival order
        // (it stops at the first unfinished decode; a failing decode may end a poll early)
        let lo = delivered_prefix;
        let mut hi = delivered_prefix;
        if e.polled {
            while hi < k && released[hi] {
                hi += 1;
            }
        }
        let mut matched = None;
        for p in (lo..=hi).rev() {
            let m: Vec<i64> = model(&case.images, p).into_iter().map(|i| i as i64).collect();
            if m == e.sixels {
                matched = Some(p);
                break;
            }
        }
        let expect: Vec<i64> = model(&case.images, hi).into_iter().map(|i| i as i64).collect();
        if let Some(p) = matched {
            delivered_prefix = p;
            // once the queue is empty everything that arrived must have been handed over
            if e.queue_len == 0 && e.polled && released.iter().all(|r| *r) && p != k {
                let full: Vec<i64> = model(&case.images, k).into_iter().map(|i| i as i64).collect();
                if full != e.sixels {
                    bad.push(("image-lost".into(), json!({"event": e, "expected": full, "class": case.class})));
                    break;
                }
            }
        }
        if e.sixels.iter().any(|s| *s < 0) {
            bad.push(("unknown-image-on-screen".into(), json!({"event": e, "expected": expect})));
            break;
        }
        let mut sorted = e.sixels.clone();
        sorted.sort_unstable();
        sorted.dedup();
        if sorted.len() != e.sixels.len() {
            bad.push(("image-delivered-twice".into(), json!({"event": e, "expected": expect})));
            break;
        }
        for s in &e.sixels {
            if gone[*s as usize] {
                bad.push(("image-reappears".into(), json!({"event": e, "expected": expect})));
            }
            ever_seen[*s as usize] = true;
        }
        for i in 0..k {
            if ever_seen[i] && !e.sixels.contains(&(i as i64)) {
                gone[i] = true;
            }
        }
        if matched.is_none() {
            let key = if e.sixels.len() == expect.len() && sorted == { let mut x = expect.clone(); x.sort_unstable(); x } {
                "images-out-of-arrival-order"
            } else if e.sixels.len() > expect.len() {
                "covered-or-unfinished-image-shown"
            } else {
                "image-missing"
            };
            bad.push((key.into(), json!({"event": e, "expected": expect, "class": case.class})));
            break;
        }
    }
    if let Some(last) = events.last() {
        if last.queue_len != 0 {
            bad.push(("queue-not-drained".into(), json!({"queue_len": last.queue_len})));
        }
    }
    bad
}

const CLASSES: [&str; 18] = [
    "disjoint", "nested-later-inside", "nested-earlier-inside", "equal", "partial-overlap", "newest-covers-all", "first-fails", "middle-fails", "last-fails", "same-position-growing", "same-position-shrinking",
    "mixed", "newest-covers-first-only", "newest-covers-second-only", "aspect-older-sticks-out-below", "aspect-newer-covers-older", "same-cells-shrinking", "cells-inside-pixels-outside",
];

fn geometry(class: &str, k: usize, rng: &mut Rng) -> Vec<Img> {
    let mut v = Vec::new();
    for i in 0..k {
        let i32_ = i as i32;
        let img = match class {
            "disjoint" => Img { x: 10 * i32_, y: 1, w: 16, h: 12, fails: false, aspect: None },
            "nested-later-inside" => Img { x: i32_, y: i32_, w: 64 - 16 * i32_, h: 96 - 32 * i32_.min(2), fails: false, aspect: None },
            "nested-earlier-inside" => Img { x: 4 - i32_.min(4), y: 4 - i32_.min(4), w: 16 + 24 * i32_, h: 16 + 40 * i32_, fails: false, aspect: None },
            "equal" => Img { x: 3, y: 2, w: 24, h: 18, fails: false, aspect: None },
            "partial-overlap" => Img { x: 2 * i32_, y: i32_, w: 32, h: 24, fails: false, aspect: None },
            "newest-covers-all" => {
                if i + 1 == k {
                    Img { x: 0, y: 0, w: 400, h: 200, fails: false, aspect: None }
                } else {
                    Img { x: 5 * i32_ + 1, y: 1 + i32_, w: 16, h: 12, fails: false, aspect: None }
                }
            }
            // the newest image replaces exactly one older image; the survivors must keep their arrival order
            "newest-covers-first-only" | "newest-covers-second-only" => {
                let victim = if class == "newest-covers-first-only" || k < 3 { 0 } else { 1 };
                if i + 1 == k && k > 1 {
                    Img { x: 10 * victim, y: 1, w: 16, h: 12, fails: false, aspect: None }
                } else {
                    Img { x: 10 * i32_, y: 1, w: 16, h: 12, fails: false, aspect: None }
                }
            }
            // images with other pixel aspects than 1:1 (no raster attributes = the DCS default 2:1, or Pan;Pad of their own):
            // the older one sticks out 4 pixels below the newer one and stays / lies inside it and goes
            "aspect-older-sticks-out-below" => {
                if i + 1 == k {
                    Img { x: 0, y: 0, w: 48, h: 30, fails: false, aspect: if k % 2 == 0 { Some((0, 0)) } else { Some((2, 1)) } }
                } else {
                    Img { x: 1 + 2 * i32_, y: 1, w: 10, h: 18, fails: false, aspect: Some((0, 0)) }
                }
            }
            "aspect-newer-covers-older" => {
                if i + 1 == k {
                    Img { x: 0, y: 0, w: 48, h: 30, fails: false, aspect: None }
                } else {
                    Img { x: 1 + 2 * i32_, y: 1, w: 10, h: 12, fails: false, aspect: if i % 2 == 0 { Some((0, 0)) } else { Some((5, 3)) } }
                }
            }
            // covering is a matter of pixels, not of character cells: images that occupy the same cells but shrink by a few
            // pixels each time all stay; an older image whose cells lie inside the newer one's while its pixels stick out stays
            "same-cells-shrinking" => Img { x: 2, y: 1, w: 15 - 3 * i32_, h: 14 - 3 * i32_, fails: false, aspect: None },
            "cells-inside-pixels-outside" => {
                if i + 1 == k {
                    Img { x: 0, y: 0, w: 12 + 16 * (k as i32 - 2).max(0), h: 20, fails: false, aspect: None }
                } else {
                    Img { x: 1 + 2 * i32_, y: 0, w: 7, h: 30, fails: false, aspect: None }
                }
            }
            "first-fails" => Img { x: 6 * i32_, y: 0, w: 16, h: 12, fails: i == 0, aspect: None },
            "middle-fails" => Img { x: 6 * i32_, y: 0, w: 16, h: 12, fails: k > 2 && i == 1, aspect: None },
            "last-fails" => Img { x: 6 * i32_, y: 0, w: 16, h: 12, fails: i + 1 == k, aspect: None },
            "same-position-growing" => Img { x: 1, y: 1, w: 8 + 8 * i32_, h: 6 + 6 * i32_, fails: false, aspect: None },
            "same-position-shrinking" => Img { x: 1, y: 1, w: 40 - 8 * i32_, h: 30 - 6 * i32_, fails: false, aspect: None },
            _ => Img {
                x: rng.range(0, 20) as i32,
                y: rng.range(0, 8) as i32,
                w: 8 * rng.range(1, 6) as i32,
                h: 6 * rng.range(1, 6) as i32,
                fails: rng.chance(1, 6),
                aspect: *rng.pick(&[None, None, Some((0u8, 0u8)), Some((2, 1)), Some((1, 2))]),
            },
        };
        v.push(img);
    }
    v
}

fn permutation(mut idx: u64, k: usize) -> Vec<usize> {
    let mut items: Vec<usize> = (0..k).collect();
    let mut out = Vec::new();
    for n in (1..=k).rev() {
        let i = (idx % n as u64) as usize;
        idx /= n as u64;
        out.push(items.remove(i));
    }
    out
}

fn factorial(k: usize) -> u64 {
    (1..=k as u64).product()
}

/// The file loader's own use of the decode queue: `Buffer::from_bytes` on an .ans file feeds the sixel sequences, then
/// waits (polling every 50 ms) until every decode has been handed over and turns the images into layers. The decodes
/// are held in the gate and released one at a time `hold_ms` apart by a helper thread, in a chosen order, so that
/// "regardless of how long each background decode takes" becomes observable: the loaded picture must contain exactly
/// the images of the sequential model, however long the loader had to wait.
#[derive(Clone, Debug, Serialize, Deserialize)]
pub struct LoaderCase {
    pub class: String,
    pub images: Vec<Img>,
    pub order: Vec<usize>,
    pub hold_ms: u64,
}

fn run_loader(case: &LoaderCase) -> Vec<(String, Value)> {
    let k = case.images.len();
    let gate: Gate = Arc::new((Mutex::new(GateState { released: HashMap::new(), entered: HashMap::new() }), Condvar::new()));
    let payloads: Vec<String> = case.images.iter().enumerate().map(|(i, img)| payload_for(i, img)).collect();
    {
        let g = gate.clone();
        icy_engine::verif::set_sixel_gate(Some(Arc::new(move |_pos, data| {
            let (m, cv) = &*g;
            let mut st = m.lock().unwrap();
            st.entered.insert(data.to_string(), true);
            cv.notify_all();
            let deadline = Instant::now() + Duration::from_secs(60);
            while !st.released.get(data).copied().unwrap_or(false) {
                let (s2, to) = cv.wait_timeout(st, Duration::from_millis(100)).unwrap();
                st = s2;
                if to.timed_out() && Instant::now() > deadline {
                    break;
                }
            }
        })));
    }
    let mut file: Vec<u8> = Vec::new();
    for (i, img) in case.images.iter().enumerate() {
        file.extend_from_slice(format!("\x1b[{};{}H\x1bPq{}\x1b\\", img.y + 1, img.x + 1, payloads[i]).as_bytes());
    }
    file.extend_from_slice(b"\x1b[20;1Hend");
    let mut bad = Vec::new();
    let loaded = std::thread::scope(|s| {
        let g = gate.clone();
        let (order, hold, pl) = (case.order.clone(), case.hold_ms, payloads.clone());
        s.spawn(move || {
            for i in order {
                std::thread::sleep(Duration::from_millis(hold));
                let (m, cv) = &*g;
                m.lock().unwrap().released.insert(pl[i].clone(), true);
                cv.notify_all();
            }
        });
        Buffer::from_bytes(std::path::Path::new("loader.ans"), false, &file)
    });
    icy_engine::verif::set_sixel_gate(None);
    crate::stream::install_accounting_gate();
    let buf = match loaded {
        Ok(b) => b,
        Err(e) => {
            if !case.images.iter().any(|i| i.fails) {
                bad.push(("loader-error".into(), json!({"error": e.to_string()})));
            }
            return bad;
        }
    };
    if !buf.sixel_threads.is_empty() {
        bad.push(("loader-leaves-decodes-in-the-queue".into(), json!({"queued": buf.sixel_threads.len()})));
    }
    // the images the loaded picture holds (image layers; a loader that left some on layer 0 is counted too)
    let mut got: Vec<i64> = Vec::new();
    for l in buf.layers.iter() {
        for sx in l.sixels.iter() {
            let red = sx.picture_data.chunks(4).find(|p| p[3] != 0).map(|p| p[0]).unwrap_or(0) as i32;
            let pos = l.get_offset() + sx.position;
            let id = case.images.iter().enumerate().find(|(i, img)| red == (10 * (*i as i32 + 1)) * 255 / 100 && pos == Position::new(img.x, img.y) && sx.get_width() == img.w && sx.get_height() == img.h).map(|(i, _)| i as i64).unwrap_or(-1);
            got.push(id);
        }
    }
    got.sort_unstable();
    let mut want: Vec<i64> = model(&case.images, k).into_iter().map(|i| i as i64).collect();
    want.sort_unstable();
    if got != want {
        bad.push(("loader-images".into(), json!({"loaded": got, "model": want, "hold_ms": case.hold_ms, "order": case.order})));
    }
    bad
}

/// a poll normally takes microseconds; the limit only has to absorb scheduling delays of a loaded machine
const POLL_LIMIT_S: u64 = 6;
/// once a worker has seen this many blocked polls the verdict is settled: the remaining schedules (each of which would
/// cost POLL_LIMIT_S) are skipped and counted
const MAX_BLOCKED_POLLS: u64 = 3;
static BLOCKED_POLLS: std::sync::atomic::AtomicU64 = std::sync::atomic::AtomicU64::new(0);

#[derive(Default)]
pub struct C14 {
    n_loader: u64,
    n_sched: u64,
    sched_index: Vec<(usize, usize, u64, u64)>, // (class, k, perm, polls)
}

impl C14 {
    fn sched_case(&self, ctx: &Ctx, k_idx: u64) -> SchedCase {
        let (ci, k, perm, polls) = self.sched_index[k_idx as usize];
        let mut rng = ctx.rng2(k_idx, "geom");
        SchedCase {
            class: CLASSES[ci].into(),
            images: geometry(CLASSES[ci], k, &mut rng),
            order: permutation(perm, k),
            polls: (0..k).map(|j| polls >> j & 1 == 1).collect(),
            // every third schedule of two or more images has late arrivals
            late: if k > 1 && k_idx % 3 == 0 { 1 + (k_idx / 3) as usize % (k - 1) } else { 0 },
        }
    }

    fn loader_case(&self, ctx: &Ctx, idx: u64) -> LoaderCase {
        const LOADER_CLASSES: [&str; 4] = ["disjoint", "newest-covers-all", "same-position-growing", "mixed"];
        let mut r = idx;
        let hold_ms = [0u64, 120][(r % 2) as usize];
        r /= 2;
        // (k, perm) over 1 + 2 + 6 combinations
        let combo = r % 9;
        r /= 9;
        let (k, perm) = if combo < 1 { (1usize, 0u64) } else if combo < 3 { (2, combo - 1) } else { (3, combo - 3) };
        let class = LOADER_CLASSES[(r % 4) as usize];
        let mut rng = ctx.rng2(idx, "loader-geom");
        LoaderCase { class: class.into(), images: geometry(class, k, &mut rng).into_iter().map(|mut i| { i.fails = false; i }).collect(), order: permutation(perm, k), hold_ms }
    }

    fn exec_loader(&mut self, ctx: &mut Ctx, case: &LoaderCase) {
        let bad = run_loader(case);
        ctx.count("loader_files_loaded", 1);
        ctx.count("loader_images", case.images.len() as u64);
        ctx.fp_str(&format!("loader|{}|{:?}|{}", case.class, case.order, case.hold_ms));
        if ctx.want_sample() && case.images.len() == 3 && case.hold_ms > 0 {
            ctx.sample(json!({"part": "loader", "class": case.class, "order": case.order, "hold_ms": case.hold_ms, "images": case.images.len()}));
        }
        for (key, mut detail) in bad {
            detail["class"] = json!(case.class);
            ctx.violation(&format!("loader|{key}"), detail, json!({"loader": serde_json::to_value(case).unwrap()}));
        }
    }

    fn exec_sched(&mut self, ctx: &mut Ctx, case: &SchedCase) {
        if BLOCKED_POLLS.load(std::sync::atomic::Ordering::SeqCst) >= MAX_BLOCKED_POLLS && !ctx.replay {
            ctx.count("schedules_skipped_after_repeated_blocked_polls", 1);
            return;
        }
        let (events, mut bad) = run_schedule(case);
        bad.extend(check_log(case, &events));
        ctx.count("schedules_run", 1);
        ctx.count("poll_events", events.iter().filter(|e| e.polled).count() as u64);
        ctx.count("release_events", events.iter().filter(|e| e.released.is_some()).count() as u64);
        ctx.count(&format!("schedules_k{}", case.images.len()), 1);
        // distinct schedule: (geometry class, k, completion order, poll placement)
        ctx.fp_str(&format!("{}|{:?}|{:?}", case.class, case.order, case.polls));
        if ctx.want_sample() && case.images.len() >= 3 && ctx.evaluations % 13 == 1 {
            ctx.sample(json!({"part": "schedule", "class": case.class, "order": case.order, "polls": case.polls,
                "log": events.iter().map(|e| json!({"step": e.step, "released": e.released, "polled": e.polled, "result": e.poll_result, "queue": e.queue_len, "on_screen": e.sixels})).collect::<Vec<_>>()}));
        }
        for (key, mut detail) in bad {
            detail["schedule"] = json!({"class": case.class, "order": case.order, "polls": case.polls});
            ctx.violation(&format!("schedule|{key}"), detail, json!({"schedule": serde_json::to_value(case).unwrap()}));
        }
    }
}

impl Prop for C14 {
    fn id(&self) -> &'static str {
        "C14"
    }
    fn rule(&self) -> &'static str {
        "(payload) seeded sixel payloads over data characters, '!' repeats <= 500, '$', '-', '#' selects and RGB/HLS definitions, raster attributes smaller/equal/larger than the data, rows of unequal length: Sixel::parse_from must give picture_data.len()==width*height*4, and with a 4-parameter raster the declared height and (when no drawn pixel lies beyond it) width; with a 3-parameter raster the one declared extent must be honoured as height (the engine's reading) or as minimum width (the DEC manual's). (schedule) k<=4 real DCS sixel sequences are fed through the real ANSI parser; every decode thread blocks in the gate hook; for every completion order (k!) x every placement of update_sixel_threads polls (2^k) x 18 geometry classes (two of them with images of other pixel aspects than 1:1 - the renderer does not stretch them, what is on the screen is the pixel rectangle) - in every third schedule the last sequences arrive only after the first release has finished - the harness releases one decode at a time, waits for is_finished, optionally polls (on a helper thread; all decoders it could wait for are held by the harness, so not returning within 6 s but returning once the gates open = blocked; after 3 blocked polls a worker skips its remaining schedules), records (step, released, polled, result, queue length, images on screen in layer order) and an offline checker compares every record with the model 'fold arrivals in order over the longest finished prefix, newer image removes older ones it contains'. (loader) .ans files with k<=3 sixel sequences are loaded with Buffer::from_bytes while a helper thread releases the held decodes 0 or 120 ms apart in every order: the loaded picture must hold exactly the images of the model and no decode may be left in the queue. distinct_nontrivial = distinct (class, order, polls) schedules plus distinct (width,height,raster,newline) payload outcomes"
    }
    fn meta(&self, ctx: &Ctx) -> Value {
        json!({"floor_evaluations": 2000, "floor_distinct": ctx.tier.pick(500u64, 3000u64), "watchdog_s": 120,
               "assumptions": ["images are identified by colour, position and size", "durations are not enumerated: with order and poll placement fixed the only shared state is the JoinHandle (DESIGN.md §6)",
                               "the Miri run of this scenario (data-race / UB detection) is reported under miri in the evidence when the tier is thorough"]})
    }
    fn total(&mut self, ctx: &Ctx) -> u64 {
        self.sched_index.clear();
        for (ci, _) in CLASSES.iter().enumerate() {
            for k in 1..=4usize {
                for perm in 0..factorial(k) {
                    for polls in 0..(1u64 << k) {
                        self.sched_index.push((ci, k, perm, polls));
                    }
                }
            }
        }
        self.n_sched = self.sched_index.len() as u64;
        // loader class: 4 geometry classes x k = 1..=3 x all k! release orders x hold {0, 120 ms}
        self.n_loader = 4 * (1 + 2 + 6) * 2;
        self.n_sched + self.n_loader + ctx.tier.pick(150_000, 2_000_000)
    }
    fn run_case(&mut self, ctx: &mut Ctx, k: u64) {
        ctx.begin(k);
        if k < self.n_sched {
            let case = self.sched_case(ctx, k);
            self.exec_sched(ctx, &case);
        } else if k < self.n_sched + self.n_loader {
            let case = self.loader_case(ctx, k - self.n_sched);
            self.exec_loader(ctx, &case);
        } else {
            let mut rng = ctx.rng(k);
            let case = PayloadCase { payload: gen_payload(&mut rng) };
            check_payload(ctx, &case);
        }
    }
    fn replay(&mut self, ctx: &mut Ctx, case: &Value) {
        ctx.begin(0);
        if let Some(l) = case.get("loader") {
            let c: LoaderCase = serde_json::from_value(l.clone()).expect("loader case");
            self.exec_loader(ctx, &c);
        } else if let Some(s) = case.get("schedule") {
            let c: SchedCase = serde_json::from_value(s.clone()).expect("schedule case");
            self.exec_sched(ctx, &c);
        } else if let Some(p) = case.get("payload") {
            let c: PayloadCase = serde_json::from_value(p.clone()).expect("payload case");
            check_payload(ctx, &c);
        }
    }
}
