//! C01 — no byte stream can crash a terminal emulation.
use serde_json::{json, Value};

use crate::ctx::Ctx;
use crate::gen_stream::{self, CSI_INTERMEDIATES};
use crate::mon::{Budgets, PanicKind};
use crate::rng::{hash_str, mix};
use crate::shrink::shrink_list;
use crate::stream::{self, printable, run_stream, RunOpts, StreamCase, EMUS};
use crate::Prop;

#[derive(Default)]
pub struct C01 {
    n_table: u64,
    n_esc: u64,
    n_bytes: u64,
    n_modes: u64,
    n_selectors: u64,
}

/// parameter vectors of the exhaustive part: none, one, or two values from this set
fn table_values(w: i32, h: i32) -> Vec<Option<i64>> {
    vec![None, Some(0), Some(1), Some(2), Some((h - 1) as i64), Some(h as i64), Some((h + 1) as i64), Some(w as i64), Some((w + 1) as i64), Some(255), Some(9999)]
}

const TABLE_SCREENS: [(i32, i32, bool); 4] = [(80, 25, false), (80, 25, true), (1, 1, false), (7, 3, true)];

fn table_prefixes(w: i32, h: i32) -> Vec<Vec<u8>> {
    let mut fill = Vec::new();
    for i in 0..(h + 3) {
        fill.extend_from_slice(format!("r{i}\r\n").as_bytes());
    }
    vec![
        vec![],
        fill.clone(),
        b"\x1b[2;3r".to_vec(),
        b"\x1b[?69h\x1b[2;4s".to_vec(),
        b"\x1b[4habc\x1b[2D".to_vec(),
        {
            let mut v = fill.clone();
            v.extend_from_slice(b"\x1b[1;2r\x1b[?7l");
            for _ in 0..w {
                v.push(b'x');
            }
            v
        },
        b"abc\r\ndef\x1b[H".to_vec(),
        b"\x1b[3g\x1b[s\x1b[5;5H".to_vec(),
    ]
}

const N_PARAM_VECS: u64 = 1 + 11 + 121;
const N_PREFIXES: u64 = 8;

impl C01 {
    fn table_case(&self, k: u64) -> StreamCase {
        // k -> (screen, prefix, intermediate, final, params)
        let mut r = k;
        let pv = r % N_PARAM_VECS;
        r /= N_PARAM_VECS;
        let fin = 0x40 + (r % 63) as u8;
        r /= 63;
        let inter = CSI_INTERMEDIATES[(r % 8) as usize];
        r /= 8;
        let pi = (r % N_PREFIXES) as usize;
        r /= N_PREFIXES;
        let (w, h, alloc) = TABLE_SCREENS[(r % 4) as usize];
        r /= 4;
        let music = (r % 4) as u8;
        let vals = table_values(w, h);
        let params: Vec<Option<i64>> = if pv == 0 {
            vec![]
        } else if pv <= 11 {
            vec![vals[(pv - 1) as usize]]
        } else {
            let q = pv - 12;
            vec![vals[(q / 11) as usize], vals[(q % 11) as usize]]
        };
        let mut bytes = Vec::new();
        if matches!(inter, "?" | "=" | "!" | "<") {
            gen_stream::csi(&mut bytes, inter, &params, "", fin);
        } else {
            gen_stream::csi(&mut bytes, "", &params, inter, fin);
        }
        // something after the control function: the state it left must keep working
        bytes.extend_from_slice(b"Z\r\nY\x0e");
        StreamCase {
            emu: "ansi".into(),
            music,
            w,
            h,
            alloc,
            prefix: table_prefixes(w, h)[pi].clone(),
            bytes,
        }
    }

    fn esc_case(&self, k: u64) -> StreamCase {
        // ESC + every byte, on every prefix / screen
        let mut r = k;
        let b = (r % 256) as u8;
        r /= 256;
        let pi = (r % N_PREFIXES) as usize;
        r /= N_PREFIXES;
        let (w, h, alloc) = TABLE_SCREENS[(r % 4) as usize];
        StreamCase {
            emu: "ansi".into(),
            music: 0,
            w,
            h,
            alloc,
            prefix: table_prefixes(w, h)[pi].clone(),
            bytes: vec![0x1b, b, b'Z', b'\r', b'\n'],
        }
    }

    fn bytes_case(&self, k: u64) -> StreamCase {
        // every byte, and ESC/lead-in + every byte, for every emulation, on three states
        let mut r = k;
        let b = (r % 256) as u8;
        r /= 256;
        let lead = (r % 3) as u8;
        r /= 3;
        let st = (r % 3) as usize;
        r /= 3;
        let emu = EMUS[(r % 10) as usize];
        let (w, h) = if stream::is_fixed_grid(emu) { (40, 24) } else { (80, 25) };
        let lead_byte: u8 = match emu {
            "avatar" => 0x16,
            "pcboard" => b'@',
            "ctrla" => 0x01,
            "renegade" => b'|',
            _ => 0x1b,
        };
        let mut bytes = Vec::new();
        match lead {
            1 => bytes.push(lead_byte),
            2 => {
                bytes.push(lead_byte);
                bytes.push(if emu == "avatar" { 0x19 } else { b'X' });
            }
            _ => {}
        }
        bytes.push(b);
        bytes.extend_from_slice(b"AB");
        let prefix = match st {
            0 => vec![],
            1 => {
                let mut v = Vec::new();
                for i in 0..(h + 2) {
                    v.extend_from_slice(format!("r{i}").as_bytes());
                    v.push(match emu {
                        "petscii" => 0x0D,
                        "atascii" => 0x9B,
                        _ => b'\n',
                    });
                }
                v
            }
            _ => vec![b'x'; (w * 2 - 1) as usize],
        };
        StreamCase {
            emu: emu.into(),
            music: 0,
            w,
            h,
            alloc: st != 2,
            prefix,
            bytes,
        }
    }

    fn random_case(&self, ctx: &Ctx, k: u64) -> StreamCase {
        let mut rng = ctx.rng(k);
        let emu = if rng.chance(1, 2) { "ansi" } else { *rng.pick(&EMUS) };
        let emu = if emu == "ansi" && rng.chance(1, 8) { "ansi-bs" } else { emu };
        let (w, h) = gen_stream::pick_size(&mut rng, emu);
        let huge = rng.chance(1, 40);
        let prefix = gen_stream::state_prefix(&mut rng, emu, w, h);
        let bytes = match rng.usize(20) {
            0 | 1 => {
                // raw random bytes
                let n = 1 + rng.usize(300);
                rng.bytes(n)
            }
            2 => {
                // long stream that fills the scrollback
                let n = 4096 + rng.usize(8192);
                gen_stream::token_stream(&mut rng, emu, w, h, n, false)
            }
            3 | 4 => {
                // mutated token stream
                let n = 20 + rng.usize(200);
                let mut v = gen_stream::token_stream(&mut rng, emu, w, h, n, huge);
                for _ in 0..(1 + rng.usize(4)) {
                    if v.is_empty() {
                        break;
                    }
                    let i = rng.usize(v.len());
                    match rng.usize(4) {
                        0 => v[i] = rng.byte(),
                        1 => {
                            v.remove(i);
                        }
                        2 => v.insert(i, *rng.pick(b"\x1b[;0123456789\x0c\n")),
                        _ => v.truncate(i),
                    }
                }
                v
            }
            _ => {
                let n = 1 + rng.usize(400);
                gen_stream::token_stream(&mut rng, emu, w, h, n, huge)
            }
        };
        StreamCase {
            emu: emu.into(),
            music: rng.usize(4) as u8,
            w,
            h,
            alloc: rng.bool(),
            prefix,
            bytes,
        }
    }

    fn case_for(&self, ctx: &Ctx, k: u64) -> (StreamCase, &'static str) {
        if k < self.n_table {
            (self.table_case(k), "table")
        } else if k < self.n_table + self.n_esc {
            (self.esc_case(k - self.n_table), "esc")
        } else if k < self.n_table + self.n_esc + self.n_bytes {
            (self.bytes_case(k - self.n_table - self.n_esc), "bytes")
        } else if k < self.n_table + self.n_esc + self.n_bytes + self.n_modes {
            (self.modes_case(k - self.n_table - self.n_esc - self.n_bytes), "modes")
        } else if k < self.n_table + self.n_esc + self.n_bytes + self.n_modes + self.n_selectors {
            (self.selectors_case(k - self.n_table - self.n_esc - self.n_bytes - self.n_modes), "selectors")
        } else {
            (self.random_case(ctx, k), "random")
        }
    }

    fn selectors_case(&self, k: u64) -> StreamCase {
        // the small numbers that select an entry of a table (baud rates, fonts, colour spaces, report kinds, tab stops ...):
        // every CSI final x intermediate with one parameter at each value 0..=40 - as the only one, behind a 0 and behind a
        // 1 - followed by ordinary output. The table class draws its parameters from boundary values of the screen, which
        // never name the last or the one-past-last entry of such a table
        const INTER: [&str; 8] = ["", " ", "$", "*", "?", "=", "!", "<"];
        let mut r = k;
        let v = r % 41;
        r /= 41;
        let lead = r % 3;
        r /= 3;
        let fin = 0x40 + (r % 63) as u8;
        r /= 63;
        let inter = INTER[(r % 8) as usize];
        let prefix_inter = matches!(inter, "?" | "=" | "!" | "<");
        let mut bytes = b"\x1b[".to_vec();
        if prefix_inter {
            bytes.extend_from_slice(inter.as_bytes());
        }
        match lead {
            0 => {}
            1 => bytes.extend_from_slice(b"0;"),
            _ => bytes.extend_from_slice(b"1;"),
        }
        bytes.extend_from_slice(v.to_string().as_bytes());
        if !prefix_inter {
            bytes.extend_from_slice(inter.as_bytes());
        }
        bytes.push(fin);
        bytes.extend_from_slice(b"ab\r\ncd\x1b[6n\tg\n");
        StreamCase {
            emu: "ansi".into(),
            music: 0,
            w: 80,
            h: 25,
            alloc: false,
            prefix: vec![],
            bytes,
        }
    }

    fn modes_case(&self, k: u64) -> StreamCase {
        // every mode number 0..=2100 (ANSI modes, DEC private modes incl. the mouse modes 1000..1015 and 2004) set, reset,
        // queried (DECRQM, with and without '?') and set twice, then ordinary output at the right margin and a report
        // request, on a fresh and on a scrolled screen: the boundary values of the table never name a mode
        let mut r = k;
        let form = r % 6;
        r /= 6;
        let m = r % 2101;
        r /= 2101;
        let scrolled = r % 2 == 1;
        let seq = match form {
            0 => format!("\x1b[?{m}h"),
            1 => format!("\x1b[?{m}l"),
            2 => format!("\x1b[{m}h"),
            3 => format!("\x1b[{m}l"),
            4 => format!("\x1b[?{m}$p\x1b[{m}$p"),
            _ => format!("\x1b[?{m};{m}h\x1b[?{m}$p"),
        };
        let mut bytes = seq.into_bytes();
        bytes.extend_from_slice(b"\x1b[1;79Habcd\r\nef\x1b[6n\x1b[?6n\x1b[2;2H\x1b[K\x1b[5n\x1b[c\tg\x08h\n");
        let prefix = if scrolled { (0..30).flat_map(|i| format!("line {i}\r\n").into_bytes()).collect() } else { vec![] };
        StreamCase {
            emu: "ansi".into(),
            music: 0,
            w: 80,
            h: 25,
            alloc: scrolled,
            prefix,
            bytes,
        }
    }
}

pub fn stream_budgets(case: &StreamCase) -> Budgets {
    let n = case.total_len() as u64 + 1;
    let (w, h) = (case.w as u64, case.h as u64);
    Budgets {
        // the C03 absolute bound; exceeding it is a resource event decided by C03
        work: (16 * n * w * h * w.max(h) + 100_000).min(120_000_000),
        depth: 16,
        block_ms: -1,
    }
}

/// Shared by C01 and C09: run, classify, report.
pub fn exec_stream(ctx: &mut Ctx, case: &StreamCase, class: &str, check_geometry: bool, api: &str) {
    let opts = RunOpts {
        graphics: false,
        check_geometry,
        budgets: stream_budgets(case),
        thread_budget: 50_000_000,
    };
    let (obs, _buf) = run_stream(case, opts);
    ctx.count("chars_fed", obs.fed as u64);
    ctx.count("errs_returned", obs.errs);
    ctx.count("chars_fed_after_an_err", obs.fed_after_err);
    ctx.count("send_string_actions", obs.sends);
    ctx.count("sixel_threads", obs.sixel_threads);
    ctx.count(&format!("cases_{class}"), 1);
    ctx.count(&format!("cpu_us_{class}"), obs.measure.cpu_ns / 1000);
    ctx.max("max_case_cpu_ms", obs.measure.cpu_ns / 1_000_000);
    if obs.measure.cpu_ns > 1_000_000_000 {
        ctx.count("cases_over_1s_cpu", 1);
        ctx.note(format!("slow case k={} cpu={}ms ticks={} emu={} size={}x{} prefix={} bytes={}", ctx.cur_case, obs.measure.cpu_ns / 1_000_000, obs.measure.ticks,
            case.emu, case.w, case.h, printable(&case.prefix).chars().take(200).collect::<String>(), printable(&case.bytes).chars().take(300).collect::<String>()));
    }
    ctx.count(&format!("ticks_{class}"), obs.measure.ticks);
    ctx.count(&format!("cases_emu_{}", case.emu), 1);
    if obs.scrollback_rows > 0 {
        ctx.count("cases_with_scrollback", 1);
    }
    if obs.resized_at.is_some() {
        ctx.count("cases_with_resize_request", 1);
    }
    if obs.threads_timed_out {
        ctx.note(format!("decode threads did not finish within 60s in case {}", ctx.cur_case));
    }
    // fingerprint of observed behaviour
    let head: Vec<u8> = case.bytes.iter().take(if class == "table" || class == "esc" || class == "bytes" || class == "modes" || class == "selectors" { 12 } else { 3 }).copied().collect();
    let fp = mix(
        mix(hash_str(&case.emu), (case.music as u64) << 40 | (case.alloc as u64) << 32 | (obs.kinds as u64) << 8 | (obs.scrollback_rows > 0) as u64),
        mix(crate::rng::hash_bytes(&head), (obs.panic.is_some() as u64) << 1 | (obs.errs > 0) as u64),
    );
    ctx.fp(fp);
    if ctx.want_sample() && (obs.errs > 0 || obs.sends > 0) {
        ctx.sample(json!({"class": class, "emu": case.emu, "size": [case.w, case.h], "alloc": case.alloc,
            "prefix": printable(&case.prefix), "bytes": printable(&case.bytes), "errs": obs.errs, "updates": obs.updates, "sends": obs.sends,
            "ticks": obs.measure.ticks, "scrollback_rows": obs.scrollback_rows}));
    }
    let mut thread_panics = obs.thread_panics.clone();
    if let Some((at, p)) = &obs.panic {
        match p.kind {
            PanicKind::Engine | PanicKind::Harness => {
                if api == "print_char" {
                    let (key, _) = crate::ctx::panic_key(api, p);
                    let mut shrunk = case.clone();
                    if ctx.seen(&key) == 0 && !ctx.replay {
                        let (_, d0) = crate::ctx::panic_key(api, p);
                        ctx.violation_pending(&key, d0, serde_json::to_value(case).unwrap());
                        shrunk = shrink_stream(case, &key, opts);
                    }
                    let v = serde_json::to_value(&shrunk).unwrap();
                    let (key, mut detail) = crate::ctx::panic_key(api, p);
                    detail["at_char"] = json!(at);
                    detail["stream"] = json!(printable(&shrunk.bytes));
                    detail["prefix"] = json!(printable(&shrunk.prefix));
                    ctx.violation(&key, detail, v);
                } else {
                    ctx.count("streams_ended_by_panic_(C01)", 1);
                }
            }
            _ => {
                ctx.count("resource_events_deferred_to_C03", 1);
            }
        }
    }
    for p in thread_panics.drain(..) {
        match p.kind {
            PanicKind::Engine => {
                if api == "print_char" {
                    ctx.panic_violation("sixel-thread", &p, serde_json::to_value(case).unwrap());
                }
            }
            _ => ctx.count("resource_events_deferred_to_C03", 1),
        }
    }
    if check_geometry {
        if let Some(g) = &obs.geo {
            report_geometry(ctx, case, g, opts);
        }
    }
}

fn shrink_stream(case: &StreamCase, key: &str, opts: RunOpts) -> StreamCase {
    let fails = |c: &StreamCase| -> bool {
        let (o, _) = run_stream(c, opts);
        match &o.panic {
            Some((_, p)) => crate::ctx::panic_key("print_char", p).0 == key,
            None => false,
        }
    };
    let mut cur = case.clone();
    // cut everything behind the fatal character first
    let p = shrink_list(&cur.prefix, 120, |cand| {
        let mut c = cur.clone();
        c.prefix = cand.to_vec();
        fails(&c)
    });
    cur.prefix = p;
    let b = shrink_list(&cur.bytes, 200, |cand| {
        let mut c = cur.clone();
        c.bytes = cand.to_vec();
        fails(&c)
    });
    cur.bytes = b;
    cur
}

pub fn report_geometry(ctx: &mut Ctx, case: &StreamCase, g: &crate::stream::GeoViolation, opts: RunOpts) {
    // cause key: emulation family + what + the control function that was executing (from the shrunk stream)
    let base_key = |c: &StreamCase, what: &str| -> String {
        let all: Vec<u8> = c.prefix.iter().chain(c.bytes.iter()).copied().collect();
        format!("geometry|{}|{}|{}", c.emu, what, last_token_class(&all))
    };
    let what = g.what.clone();
    let fails = |c: &StreamCase| -> bool {
        let (o, _) = run_stream(c, opts);
        o.geo.as_ref().map(|x| x.what == what).unwrap_or(false)
    };
    let mut cur = case.clone();
    // truncate behind the violating character
    let plen = cur.prefix.len();
    if g.at >= plen {
        cur.bytes.truncate(g.at - plen + 1);
    } else {
        cur.prefix.truncate(g.at + 1);
        cur.bytes.clear();
    }
    if !ctx.replay && fails(&cur) {
        ctx.violation_pending(&base_key(&cur, &g.what), json!({"what": g.what, "state": g.detail.clone(), "emu": cur.emu, "size": [cur.w, cur.h]}), serde_json::to_value(&cur).unwrap());
        let p = shrink_list(&cur.prefix.clone(), 150, |cand| {
            let mut c = cur.clone();
            c.prefix = cand.to_vec();
            fails(&c)
        });
        cur.prefix = p;
        let b = shrink_list(&cur.bytes.clone(), 250, |cand| {
            let mut c = cur.clone();
            c.bytes = cand.to_vec();
            fails(&c)
        });
        cur.bytes = b;
    } else if !ctx.replay {
        cur = case.clone();
    }
    let key = base_key(&cur, &g.what);
    let (o, _) = run_stream(&cur, opts);
    let detail = json!({"what": g.what, "state": o.geo.as_ref().map(|x| x.detail.clone()).unwrap_or(g.detail.clone()),
        "emu": cur.emu, "size": [cur.w, cur.h], "alloc": cur.alloc,
        "prefix": printable(&cur.prefix), "stream": printable(&cur.bytes)});
    ctx.violation(&key, detail, serde_json::to_value(&cur).unwrap());
}

/// classify the last token of a (shrunk) stream: CSI final+intermediate, ESC x, C0 byte, or "char"
pub fn last_token_class(all: &[u8]) -> String {
    if all.is_empty() {
        return "empty".into();
    }
    // find the last ESC
    if let Some(pos) = all.iter().rposition(|b| *b == 0x1b) {
        let rest = &all[pos + 1..];
        if rest.first() == Some(&b'[') {
            let body = &rest[1..];
            // final = first byte in 0x40..=0x7E
            if let Some(fi) = body.iter().position(|b| (0x40..=0x7E).contains(b)) {
                if fi + 1 == body.len() {
                    let inter: String = body[..fi].iter().filter(|b| !b.is_ascii_digit() && **b != b';').map(|b| *b as char).collect();
                    return format!("CSI{}{}", inter, body[fi] as char);
                }
            }
        } else if rest.len() == 1 {
            return format!("ESC-{:02X}", rest[0]);
        }
    }
    let last = *all.last().unwrap();
    if last < 0x20 || last >= 0x7F {
        format!("byte-{last:02X}")
    } else {
        "char".into()
    }
}

impl Prop for C01 {
    fn id(&self) -> &'static str {
        "C01"
    }
    fn rule(&self) -> &'static str {
        "cases: (table) every CSI final 0x40..0x7E x 8 intermediates x parameter vectors of length <=2 over {absent,0,1,2,h-1,h,h+1,w,w+1,255,9999} x 8 state prefixes x 4 screens (x 4 music options in thorough), enumerated; (esc) ESC + every byte x prefixes x screens; (bytes) every byte, lead-in+byte, lead-in+X+byte for all 10 emulations on 3 states; (modes) every mode number 0..=2100 set / reset / queried with and without '?' followed by output at the right margin and report requests, on a fresh and a scrolled screen; (selectors) every CSI final x 8 intermediates with one parameter at each value 0..=40, alone and behind a 0 or a 1 (the small numbers that select a table entry: baud rates, fonts, report kinds ...); (random) seeded grammar / raw / mutated / long streams on sizes 1..132 x 1..60 with scrollback. A case is one stream fed character by character through BufferParser::print_char under catch_unwind. distinct_nontrivial = distinct (emulation, music option, allocation, result-kind set {Err,Update,NoUpdate,SendString,Beep,PlayMusic,Resize}, scrollback present, stream head, panicked, returned-Err) fingerprints observed"
    }
    fn meta(&self, _ctx: &Ctx) -> Value {
        json!({"floor_evaluations": 10000, "floor_distinct": 500, "plain_pass": "quick",
               "deferred_death_classes": ["alloc-failure"],
               "assumptions": ["characters are the 256 byte values (the loaders and terminals feed bytes as chars 0..=255)",
                               "work-budget / allocation / nesting events are resource exhaustion and are decided by C03, not C01 (counted as resource_events_deferred_to_C03)",
                               "a panic on a sixel decode thread counts as a C01 violation (sixel is one of the sub-languages)"]})
    }
    fn total(&mut self, ctx: &Ctx) -> u64 {
        let music = ctx.tier.pick(1, 4);
        self.n_table = N_PARAM_VECS * 63 * 8 * N_PREFIXES * 4 * music;
        self.n_esc = 256 * N_PREFIXES * 4;
        self.n_bytes = 256 * 3 * 3 * 10;
        self.n_modes = 6 * 2101 * 2;
        self.n_selectors = 41 * 3 * 63 * 8;
        self.n_table + self.n_esc + self.n_bytes + self.n_modes + self.n_selectors + ctx.tier.pick(60_000, 3_000_000)
    }
    fn run_case(&mut self, ctx: &mut Ctx, k: u64) {
        let (case, class) = self.case_for(ctx, k);
        ctx.begin(k);
        exec_stream(ctx, &case, class, false, "print_char");
    }
    fn replay(&mut self, ctx: &mut Ctx, case: &Value) {
        let c: StreamCase = serde_json::from_value(case.clone()).expect("stream case");
        ctx.begin(0);
        exec_stream(ctx, &c, "replay", false, "print_char");
    }
}
