//! C13 — layer compositing obeys the stacking laws (relational / metamorphic monitors).
use icy_engine::{AttributedChar, Buffer, TextAttribute, TextPane};
use serde::{Deserialize, Serialize};
use serde_json::{json, Value};

use crate::ctx::Ctx;
use crate::doc::{self, CellD, DocD, LayerD};
use crate::mon::{guarded, Budgets, Outcome};
use crate::rng::Rng;
use crate::shrink::shrink_list;
use crate::Prop;

#[derive(Clone, Debug, Serialize, Deserialize)]
pub struct Case13 {
    pub doc: DocD,
    /// overlay layer (index, layer) or none
    pub overlay: Option<(usize, LayerD)>,
    /// L1..L14
    pub law: u8,
    /// law parameters: (index, dx, dy, seed)
    pub p: (usize, i32, i32, u64),
}

const TR: u32 = TextAttribute::TRANSPARENT_COLOR;

fn build(d: &DocD, overlay: &Option<(usize, LayerD)>) -> Buffer {
    let mut b = doc::build(d);
    if let Some((idx, l)) = overlay {
        let built = doc::build_layer(l);
        let slot = b.get_overlay_layer(*idx);
        *slot = Some(built);
    }
    b
}

fn bbox(d: &DocD, overlay: &Option<(usize, LayerD)>) -> (i32, i32, i32, i32) {
    let (mut x0, mut y0, mut x1, mut y1) = (0, 0, d.w, d.h);
    for l in d.layers.iter().chain(overlay.iter().map(|o| &o.1)) {
        x0 = x0.min(l.ox);
        y0 = y0.min(l.oy);
        x1 = x1.max(l.ox + l.w);
        y1 = y1.max(l.oy + l.h);
    }
    (x0 - 2, y0 - 2, x1 + 2, y1 + 2)
}

fn same(a: &AttributedChar, b: &AttributedChar) -> bool {
    if !a.is_visible() || !b.is_visible() {
        return a.is_visible() == b.is_visible();
    }
    a.ch == b.ch && a.attribute == b.attribute && a.get_font_page() == b.get_font_page()
}

fn diff_at(a: &Buffer, b: &Buffer, bb: (i32, i32, i32, i32), dx: i32, dy: i32) -> Option<(i32, i32, AttributedChar, AttributedChar)> {
    for y in bb.1..bb.3 {
        for x in bb.0..bb.2 {
            let ca = a.get_char((x, y));
            let cb = b.get_char((x + dx, y + dy));
            if !same(&ca, &cb) {
                return Some((x, y, ca, cb));
            }
        }
    }
    None
}

/// reference compositor for the fragment: all layers Normal mode, no transparent colours, no overlay
fn ref_get(d: &DocD, x: i32, y: i32) -> Option<(u32, u32, u32, u16, u16)> {
    for l in d.layers.iter().rev() {
        if !l.visible {
            continue;
        }
        let (lx, ly) = (x - l.ox, y - l.oy);
        if lx < 0 || ly < 0 || lx >= l.w || ly >= l.h {
            continue;
        }
        if let Some(c) = l.cells.iter().rev().find(|c| c.x == lx && c.y == ly) {
            return Some((c.ch, c.fg, c.bg, c.attr, c.fp));
        }
        if !l.alpha {
            return Some((0x20, 7, 0, 0, l.default_font_page));
        }
    }
    None
}

fn describe(c: &AttributedChar) -> String {
    if c.is_visible() {
        doc::describe_cell(c)
    } else {
        "invisible".into()
    }
}

fn run(case: &Case13) -> Option<(String, Value)> {
    let d = &case.doc;
    let base = build(d, &case.overlay);
    let bb = bbox(d, &case.overlay);
    let mut rng = Rng::new(case.p.3);
    let report = |law: &str, what: String, r: (i32, i32, AttributedChar, AttributedChar)| -> Option<(String, Value)> {
        Some((format!("stacking|{law}"), json!({"what": what, "x": r.0, "y": r.1, "before": describe(&r.2), "after": describe(&r.3)})))
    };
    match case.law {
        1 => {
            // insert an empty alpha layer at stack index i
            let i = case.p.0 % (d.layers.len() + 1);
            let mut d2 = d.clone();
            let mut l = LayerD::plain(1 + rng.usize(14) as i32, 1 + rng.usize(10) as i32);
            l.alpha = true;
            l.ox = rng.range(-5, 7) as i32;
            l.oy = rng.range(-5, 7) as i32;
            l.title = "empty".into();
            d2.layers.insert(i, l);
            let mut ov = case.overlay.clone();
            if let Some((oi, _)) = &mut ov {
                // the overlay stays attached to the same layer
                if *oi >= i {
                    *oi += 1;
                }
            }
            let b2 = build(&d2, &ov);
            diff_at(&base, &b2, bb, 0, 0).and_then(|r| report("L1-empty-alpha-layer-inserted", format!("inserted at index {i} of {}", d.layers.len()), r))
        }
        2 => {
            // rewrite the cells of a hidden layer
            let hidden: Vec<usize> = d.layers.iter().enumerate().filter(|(_, l)| !l.visible).map(|(i, _)| i).collect();
            if hidden.is_empty() {
                return None;
            }
            let i = hidden[case.p.0 % hidden.len()];
            let mut d2 = d.clone();
            d2.layers[i].cells.clear();
            for _ in 0..20 {
                let (w, h) = (d2.layers[i].w, d2.layers[i].h);
                d2.layers[i].cells.push(CellD { x: rng.usize(w as usize) as i32, y: rng.usize(h as usize) as i32, ch: 0x23, fg: rng.below(16) as u32, bg: rng.below(8) as u32, attr: 0, fp: 0 });
            }
            let b2 = build(&d2, &case.overlay);
            diff_at(&base, &b2, bb, 0, 0).and_then(|r| report("L2-hidden-layer-edited", format!("layer {i}"), r))
        }
        3 => {
            // translate everything by (dx, dy)
            let (dx, dy) = (case.p.1, case.p.2);
            let mut d2 = d.clone();
            for l in d2.layers.iter_mut() {
                l.ox += dx;
                l.oy += dy;
            }
            let mut ov = case.overlay.clone();
            if let Some((_, l)) = &mut ov {
                l.ox += dx;
                l.oy += dy;
            }
            let b2 = build(&d2, &ov);
            diff_at(&base, &b2, bb, dx, dy).and_then(|r| report("L3-translation", format!("by ({dx},{dy})"), r))
        }
        4 => {
            // delete everything below a visible opaque Normal-mode layer: inside its rectangle nothing changes
            let cands: Vec<usize> = d.layers.iter().enumerate().filter(|(i, l)| *i > 0 && l.visible && !l.alpha && l.mode == 0).map(|(i, _)| i).collect();
            if cands.is_empty() {
                return None;
            }
            let i = cands[case.p.0 % cands.len()];
            let mut d2 = d.clone();
            d2.layers.drain(0..i);
            let ov = case.overlay.clone().and_then(|(oi, l)| if oi >= i { Some((oi - i, l)) } else { None });
            let ov_base = case.overlay.clone().and_then(|(oi, l)| if oi >= i { Some((oi, l)) } else { None });
            let base2 = build(d, &ov_base);
            let b2 = build(&d2, &ov);
            let l = &d.layers[i];
            for y in l.oy..l.oy + l.h {
                for x in l.ox..l.ox + l.w {
                    // also where the opaque layer's own cell uses the transparent colour: it resolves against the default cell,
                    // never against the layers below ("an opaque layer hides everything beneath it inside its rectangle")
                    let (ca, cb) = (base2.get_char((x, y)), b2.get_char((x, y)));
                    if !same(&ca, &cb) {
                        return report("L4-opaque-layer-hides-lower-layers", format!("layers below index {i} removed"), (x, y, ca, cb));
                    }
                }
            }
            None
        }
        5 => {
            // (a) hidden payload of invisible cells of alpha layers, (b) move a layer that does not cover p
            let mut d2 = d.clone();
            let i = case.p.0 % d.layers.len();
            let l = d2.layers[i].clone();
            let covered = |x: i32, y: i32, l: &LayerD| x >= l.ox && y >= l.oy && x < l.ox + l.w && y < l.oy + l.h;
            let (dx, dy) = (case.p.1, case.p.2);
            d2.layers[i].ox += dx;
            d2.layers[i].oy += dy;
            let l2 = d2.layers[i].clone();
            let b2 = build(&d2, &case.overlay);
            for y in bb.1..bb.3 {
                for x in bb.0..bb.2 {
                    if covered(x, y, &l) || covered(x, y, &l2) {
                        continue;
                    }
                    let (ca, cb) = (base.get_char((x, y)), b2.get_char((x, y)));
                    if !same(&ca, &cb) {
                        return report("L5-layer-not-covering-the-position-moved", format!("layer {i} moved by ({dx},{dy})"), (x, y, ca, cb));
                    }
                }
            }
            None
        }
        7 => {
            // topmost first, also with transparent colours: in a stack of Normal-mode layers the topmost visible cell at a
            // position supplies the glyph and every colour of its own that is not the transparent colour
            if case.overlay.is_some() || d.layers.iter().any(|l| l.mode != 0) {
                return None;
            }
            for y in bb.1..bb.3 {
                for x in bb.0..bb.2 {
                    let Some((ch, fg, bg, _, _)) = ref_get(d, x, y) else { continue };
                    let got = base.get_char((x, y));
                    let ok = got.is_visible() && got.ch as u32 == ch && (fg == TR || got.attribute.get_foreground() == fg) && (bg == TR || got.attribute.get_background() == bg);
                    if !ok {
                        return Some((
                            "stacking|L7-topmost-cell-supplies-glyph-and-own-colours".into(),
                            json!({"x": x, "y": y, "engine": describe(&got), "topmost_cell": format!("ch={ch:#x} fg={fg} bg={bg}")}),
                        ));
                    }
                }
            }
            None
        }
        8 => {
            // invisible cells of alpha layers never influence the result, whatever payload (glyph, colours, other flags)
            // they carry: every empty position of an alpha layer gets a cell flagged INVISIBLE with a random payload
            let mut d2 = d.clone();
            let mut touched = 0;
            for l in d2.layers.iter_mut().filter(|l| l.alpha) {
                for y in 0..l.h {
                    for x in 0..l.w {
                        if l.cells.iter().any(|c| c.x == x && c.y == y) || rng.chance(1, 3) {
                            continue;
                        }
                        touched += 1;
                        l.cells.push(CellD {
                            x,
                            y,
                            ch: *rng.pick(&[0x41u32, 0x23, 0xDB, 0xDC, 0xDF, 0x20]),
                            fg: rng.below(16) as u32,
                            bg: rng.below(8) as u32,
                            attr: icy_engine::attribute::INVISIBLE | if rng.chance(1, 4) { icy_engine::attribute::BOLD } else { 0 },
                            fp: 0,
                        });
                    }
                }
            }
            if touched == 0 {
                return None;
            }
            let b2 = build(&d2, &case.overlay);
            diff_at(&base, &b2, bb, 0, 0).and_then(|r| report("L8-invisible-cells-of-alpha-layers-carry-a-payload", format!("{touched} invisible cells given a payload"), r))
        }
        9 => {
            // topmost first at half-cell level: where the topmost cell is a half block with one transparent colour, the half
            // of the cell beneath that lies behind the topmost cell's solid half never shows
            if case.overlay.is_some() || d.layers.iter().any(|l| l.mode != 0) {
                return None;
            }
            for y in bb.1..bb.3 {
                for x in bb.0..bb.2 {
                    // the two topmost visible cells at this position (model walk; an opaque layer without a cell ends it)
                    let mut found: Vec<(usize, usize)> = Vec::new();
                    for (li, l) in d.layers.iter().enumerate().rev() {
                        if !l.visible {
                            continue;
                        }
                        let (lx, ly) = (x - l.ox, y - l.oy);
                        if lx < 0 || ly < 0 || lx >= l.w || ly >= l.h {
                            continue;
                        }
                        if let Some(ci) = l.cells.iter().rposition(|c| c.x == lx && c.y == ly) {
                            found.push((li, ci));
                            if found.len() == 2 {
                                break;
                            }
                        } else if !l.alpha {
                            break;
                        }
                    }
                    if found.len() < 2 {
                        continue;
                    }
                    let t = &d.layers[found[0].0].cells[found[0].1];
                    let u = &d.layers[found[1].0].cells[found[1].1];
                    let half = |ch: u32| ch == 0xDC || ch == 0xDF;
                    if !half(t.ch) || !half(u.ch) || (t.fg == TR) == (t.bg == TR) || u.fg == TR || u.bg == TR {
                        continue;
                    }
                    // which half of the position the topmost cell paints itself
                    let solid_upper = (t.ch == 0xDF) == (t.bg == TR);
                    // the colour slot of the cell beneath that holds that half
                    let covered_is_fg = (u.ch == 0xDF) == solid_upper;
                    let mut d2 = d.clone();
                    let uc = &mut d2.layers[found[1].0].cells[found[1].1];
                    if covered_is_fg {
                        uc.fg = (uc.fg + 1 + rng.below(14) as u32) % 16;
                    } else {
                        uc.bg = (uc.bg + 1 + rng.below(6) as u32) % 8;
                    }
                    let b2 = build(&d2, &case.overlay);
                    let (ca, cb) = (base.get_char((x, y)), b2.get_char((x, y)));
                    if !same(&ca, &cb) {
                        return Some((
                            "stacking|L9-half-of-the-lower-cell-behind-the-solid-half-shows".into(),
                            json!({"x": x, "y": y, "topmost_cell": format!("ch={:#x} fg={} bg={}", t.ch, t.fg, t.bg), "cell_beneath": format!("ch={:#x} fg={} bg={}", u.ch, u.fg, u.bg),
                                   "changed": if covered_is_fg { "foreground of the cell beneath" } else { "background of the cell beneath" }, "before": describe(&ca), "after": describe(&cb)}),
                        ));
                    }
                }
            }
            None
        }
        10 => {
            // an attributes-mode layer contributes attributes only: which glyph its visible cells store is irrelevant
            if !d.layers.iter().any(|l| l.mode == 2) {
                return None;
            }
            let mut d2 = d.clone();
            for l in d2.layers.iter_mut().filter(|l| l.mode == 2) {
                for c in l.cells.iter_mut() {
                    c.ch = match c.ch {
                        0x20 | 0x00 => *rng.pick(&[0x23u32, 0x41, 0xDB]),
                        _ => *rng.pick(&[0x20u32, 0x00, 0x42]),
                    };
                }
            }
            let b2 = build(&d2, &case.overlay);
            diff_at(&base, &b2, bb, 0, 0).and_then(|r| report("L10-glyphs-stored-in-an-attributes-layer-matter", "glyphs of attributes-mode layers exchanged".into(), r))
        }
        11 => {
            // the first opaque contribution ends the walk: where the layers from a visible normal-mode layer i upward - with a
            // cell of layer i at the position - already show a visible cell with solid colours, the whole stack shows that cell;
            // nothing beneath layer i can matter there
            for i in 1..d.layers.len() {
                let l = &d.layers[i];
                if !l.visible || l.mode != 0 {
                    continue;
                }
                let mut d2 = d.clone();
                d2.layers.drain(0..i);
                let ov = case.overlay.clone().and_then(|(oi, l)| if oi >= i { Some((oi - i, l)) } else { None });
                let ov_base = case.overlay.clone().and_then(|(oi, l)| if oi >= i { Some((oi, l)) } else { None });
                let base2 = build(d, &ov_base);
                let b2 = build(&d2, &ov);
                for (ci, c) in l.cells.iter().enumerate() {
                    if l.cells[ci + 1..].iter().any(|o| o.x == c.x && o.y == c.y) || c.attr & icy_engine::attribute::INVISIBLE != 0 {
                        continue;
                    }
                    let (x, y) = (l.ox + c.x, l.oy + c.y);
                    let cb = b2.get_char((x, y));
                    if !cb.is_visible() || cb.attribute.get_foreground() == TR || cb.attribute.get_background() == TR {
                        continue;
                    }
                    let ca = base2.get_char((x, y));
                    if !same(&ca, &cb) {
                        return report("L11-first-opaque-contribution-ends-the-walk", format!("layers below index {i} removed; layer {i} holds a cell here and the layers from {i} upward show solid colours"), (x, y, ca, cb));
                    }
                }
            }
            None
        }
        12 => {
            // a transparent colour shows the cell beneath *as it is displayed*: where the topmost cell at a position (on an
            // alpha layer, only normal-mode layers above it) has exactly one transparent colour and a solid cell follows
            // beneath before any opaque layer, the position shows that topmost cell with its transparent colour resolved
            // (Buffer::make_solid_color) against what the position shows once the topmost cell is taken away - whatever
            // chars- and attributes-mode layers lie in between
            if case.overlay.is_some() {
                return None;
            }
            for y in bb.1..bb.3 {
                for x in bb.0..bb.2 {
                    let at = |l: &LayerD| -> Option<usize> {
                        let (lx, ly) = (x - l.ox, y - l.oy);
                        if !l.visible || lx < 0 || ly < 0 || lx >= l.w || ly >= l.h {
                            return None;
                        }
                        l.cells.iter().rposition(|c| c.x == lx && c.y == ly && c.attr & icy_engine::attribute::INVISIBLE == 0)
                    };
                    let covers = |l: &LayerD| l.visible && x >= l.ox && y >= l.oy && x < l.ox + l.w && y < l.oy + l.h;
                    // topmost normal-mode layer with a cell here; everything above it must be normal mode
                    let mut top: Option<(usize, usize)> = None;
                    for (li, l) in d.layers.iter().enumerate().rev() {
                        if l.mode != 0 {
                            if covers(l) {
                                break;
                            }
                            continue;
                        }
                        if let Some(ci) = at(l) {
                            top = Some((li, ci));
                            break;
                        }
                        if covers(l) && !l.alpha {
                            break;
                        }
                    }
                    let Some((li, ci)) = top else { continue };
                    let t = d.layers[li].cells[ci].clone();
                    if !d.layers[li].alpha || (t.fg != TR && t.bg != TR) {
                        continue;
                    }
                    // beneath: a solid normal-mode cell before any opaque layer, and no other transparent-colour cell here
                    let mut solid_beneath = false;
                    for l in d.layers[..li].iter().rev() {
                        if !covers(l) {
                            continue;
                        }
                        match at(l) {
                            Some(c2) => {
                                let c = &l.cells[c2];
                                if c.fg == TR || c.bg == TR {
                                    break;
                                }
                                if l.mode == 0 {
                                    solid_beneath = true;
                                    break;
                                }
                            }
                            None => {
                                if l.mode == 0 && !l.alpha {
                                    break;
                                }
                            }
                        }
                    }
                    if !solid_beneath {
                        continue;
                    }
                    let mut d2 = d.clone();
                    let (lx, ly) = (x - d.layers[li].ox, y - d.layers[li].oy);
                    d2.layers[li].cells.retain(|c| !(c.x == lx && c.y == ly));
                    let b2 = build(&d2, &None);
                    let under = b2.get_char((x, y));
                    if !under.is_visible() || under.attribute.get_foreground() == TR || under.attribute.get_background() == TR {
                        continue;
                    }
                    let raw = base.layers[li].get_char((lx, ly));
                    let expected = base.make_solid_color(raw, under);
                    let got = base.get_char((x, y));
                    // over a solid cell nothing transparent is left (also when both colours of the topmost cell were transparent)
                    if got.is_visible() && (got.attribute.get_foreground() == TR || got.attribute.get_background() == TR) {
                        return Some((
                            "stacking|L12-transparent-colour-left-unresolved-over-a-solid-cell".into(),
                            json!({"x": x, "y": y, "topmost_cell": describe(&raw), "shown_without_it": describe(&under), "shown": describe(&got)}),
                        ));
                    }
                    if !same(&got, &expected) {
                        return Some((
                            "stacking|L12-transparent-colour-shows-the-cell-beneath-as-displayed".into(),
                            json!({"x": x, "y": y, "topmost_cell": describe(&raw), "shown_without_it": describe(&under), "shown": describe(&got), "expected": describe(&expected)}),
                        ));
                    }
                }
            }
            None
        }
        14 => {
            // a chars-mode layer contributes glyphs only: which colours its cells with a non-blank glyph store is irrelevant
            // (a blank - NUL or space - on black is the engine's "nothing here"; every other glyph, 0xFF included, is a glyph)
            if !d.layers.iter().any(|l| l.mode == 1) {
                return None;
            }
            let mut d2 = d.clone();
            for l in d2.layers.iter_mut().filter(|l| l.mode == 1) {
                for c in l.cells.iter_mut().filter(|c| c.ch != 0 && c.ch != 0x20) {
                    c.fg = rng.below(16) as u32;
                    c.bg = if c.bg == 0 { 1 + rng.below(7) as u32 } else { 0 };
                }
            }
            let b2 = build(&d2, &case.overlay);
            diff_at(&base, &b2, bb, 0, 0).and_then(|r| report("L14-colours-stored-in-a-chars-layer-matter", "colours of the non-blank cells of chars-mode layers exchanged".into(), r))
        }
        13 => {
            // a chars-mode layer contributes glyphs only: where the first normal-mode contribution at a position is a cell
            // with solid colours (no opaque layer without a cell before it, no transparent-colour cell), the colours shown
            // are the same with every chars-mode layer hidden
            if case.overlay.is_some() || !d.layers.iter().any(|l| l.mode == 1 && l.visible) {
                return None;
            }
            let mut d2 = d.clone();
            for l in d2.layers.iter_mut().filter(|l| l.mode == 1) {
                l.visible = false;
            }
            let b2 = build(&d2, &None);
            for y in bb.1..bb.3 {
                for x in bb.0..bb.2 {
                    let mut ok = false;
                    for l in d.layers.iter().rev() {
                        let (lx, ly) = (x - l.ox, y - l.oy);
                        if !l.visible || lx < 0 || ly < 0 || lx >= l.w || ly >= l.h {
                            continue;
                        }
                        let cell = l.cells.iter().rev().find(|c| c.x == lx && c.y == ly && c.attr & icy_engine::attribute::INVISIBLE == 0);
                        match (l.mode, cell) {
                            (0, Some(c)) => {
                                ok = c.fg != TR && c.bg != TR;
                                break;
                            }
                            (0, None) => {
                                if !l.alpha {
                                    break;
                                }
                            }
                            (_, Some(c)) if c.fg == TR || c.bg == TR => break,
                            _ => {}
                        }
                    }
                    if !ok {
                        continue;
                    }
                    let (ca, cb) = (base.get_char((x, y)), b2.get_char((x, y)));
                    if ca.is_visible() != cb.is_visible() || (ca.is_visible() && (ca.attribute.get_foreground() != cb.attribute.get_foreground() || ca.attribute.get_background() != cb.attribute.get_background())) {
                        return report("L13-chars-layers-hidden-colours-change", "every chars-mode layer hidden".into(), (x, y, ca, cb));
                    }
                }
            }
            None
        }
        _ => {
            // absolute oracle on the fragment
            if case.overlay.is_some() || d.layers.iter().any(|l| l.mode != 0 || l.cells.iter().any(|c| c.fg == TR || c.bg == TR)) {
                return None;
            }
            for y in bb.1..bb.3 {
                for x in bb.0..bb.2 {
                    let got = base.get_char((x, y));
                    let exp = ref_get(d, x, y);
                    let ok = match exp {
                        None => !got.is_visible(),
                        Some((ch, fg, bg, attr, fp)) => {
                            got.is_visible() && got.ch as u32 == ch && got.attribute.get_foreground() == fg && got.attribute.get_background() == bg && got.attribute.attr == attr && got.get_font_page() == fp as usize
                        }
                    };
                    if !ok {
                        return Some((
                            "stacking|L6-reference-compositor".into(),
                            json!({"x": x, "y": y, "engine": describe(&got), "reference": format!("{exp:?}")}),
                        ));
                    }
                }
            }
            None
        }
    }
}

fn gen_layer(rng: &mut Rng, normal_only: bool, transparent: bool) -> LayerD {
    let mut l = LayerD::plain(1 + rng.usize(12) as i32, 1 + rng.usize(8) as i32);
    l.ox = rng.range(-4, 6) as i32;
    l.oy = rng.range(-4, 6) as i32;
    l.alpha = rng.chance(2, 3);
    l.visible = rng.chance(4, 5);
    l.mode = if normal_only { 0 } else { *rng.pick(&[0u8, 0, 0, 1, 2]) };
    let n = rng.usize((l.w * l.h) as usize + 1);
    for _ in 0..n {
        let (x, y) = (rng.usize(l.w as usize) as i32, rng.usize(l.h as usize) as i32);
        if l.cells.iter().any(|c| c.x == x && c.y == y) {
            continue;
        }
        let half = transparent && rng.chance(1, 5);
        let ch = if half { *rng.pick(&[0xDFu32, 0xDC, 0xDB, 0x41]) } else { *rng.pick(&[0x41u32, 0x42, 0x20, 0xDB, 0xDF, 0xDC, 0x00, 0xFF]) };
        let (fg, bg) = if half { if rng.bool() { (rng.below(16) as u32, TR) } else { (TR, rng.below(8) as u32) } } else { (rng.below(16) as u32, rng.below(8) as u32) };
        l.cells.push(CellD { x, y, ch, fg, bg, attr: if rng.chance(1, 6) { icy_engine::attribute::BOLD } else { 0 }, fp: 0 });
    }
    // a layer need not store rows it has no cells in: cleared and cropped layers keep their size with fewer (or no) rows
    l.rows_trimmed = rng.chance(1, 3);
    if l.rows_trimmed && rng.chance(1, 3) {
        l.cells.clear();
    }
    l
}

#[derive(Default)]
pub struct C13 {}

impl C13 {
    fn case_for(&self, ctx: &Ctx, k: u64) -> Case13 {
        let mut rng = ctx.rng(k);
        let law = 1 + (k % 14) as u8;
        let normal_only = law == 6 || law == 7 || law == 9 || (law != 10 && rng.chance(1, 3));
        let transparent = law == 7 || law == 9 || law == 11 || law == 12 || (law != 6 && rng.chance(1, 2));
        let mut d = DocD::single(10, 6);
        d.layers.clear();
        for _ in 0..(1 + rng.usize(5)) {
            d.layers.push(gen_layer(&mut rng, normal_only, transparent));
        }
        if law == 9 {
            // half blocks over half blocks: dense, overlapping, visible alpha layers
            for l in d.layers.iter_mut() {
                l.visible = true;
                l.alpha = true;
                l.ox = rng.range(-1, 2) as i32;
                l.oy = rng.range(-1, 2) as i32;
                l.cells.clear();
                for y in 0..l.h {
                    for x in 0..l.w {
                        if rng.chance(1, 4) {
                            continue;
                        }
                        let ch = *rng.pick(&[0xDCu32, 0xDF, 0xDC, 0xDF, 0xDB, 0x41]);
                        let (fg, bg) = match rng.usize(3) {
                            0 => (rng.below(16) as u32, TR),
                            1 => (TR, rng.below(8) as u32),
                            _ => (rng.below(16) as u32, rng.below(8) as u32),
                        };
                        l.cells.push(CellD { x, y, ch, fg, bg, attr: 0, fp: 0 });
                    }
                }
            }
        }
        if law == 13 && d.layers.len() >= 3 {
            let n = d.layers.len();
            for (i, l) in d.layers.iter_mut().enumerate() {
                l.visible = true;
                l.ox = rng.range(-1, 2) as i32;
                l.oy = rng.range(-1, 2) as i32;
                l.mode = if i == 0 { 0 } else if i == n - 1 { if rng.bool() { 1 } else { 2 } } else { *rng.pick(&[0u8, 1, 2, 2]) };
                l.cells.clear();
                for y in 0..l.h {
                    for x in 0..l.w {
                        if rng.chance(1, 3) {
                            continue;
                        }
                        l.cells.push(CellD { x, y, ch: *rng.pick(&[0x41u32, 0x51, 0xDB, 0x20, 0xDC]), fg: rng.below(16) as u32, bg: rng.below(8) as u32, attr: 0, fp: 0 });
                    }
                }
            }
            if !d.layers.iter().any(|l| l.mode == 1) {
                d.layers[n - 1].mode = 1;
            }
        }
        if law == 14 && !d.layers.iter().any(|l| l.mode == 1) {
            let i = rng.usize(d.layers.len());
            d.layers[i].mode = 1;
            d.layers[i].visible = true;
        }
        if law == 10 && !d.layers.iter().any(|l| l.mode == 2) {
            let i = rng.usize(d.layers.len());
            d.layers[i].mode = 2;
            d.layers[i].visible = true;
        }
        if law == 11 && d.layers.len() >= 2 && rng.chance(2, 3) {
            // an attributes (or chars) layer on top of everything, densely filled; opaque and alpha layers beneath
            let top = d.layers.len() - 1;
            let l = &mut d.layers[top];
            l.mode = if rng.chance(3, 4) { 2 } else { 1 };
            l.visible = true;
            l.ox = rng.range(-1, 2) as i32;
            l.oy = rng.range(-1, 2) as i32;
            l.cells.clear();
            for y in 0..l.h {
                for x in 0..l.w {
                    if rng.chance(1, 4) {
                        continue;
                    }
                    l.cells.push(CellD { x, y, ch: *rng.pick(&[0x41u32, 0x20, 0xDB]), fg: rng.below(16) as u32, bg: rng.below(8) as u32, attr: 0, fp: 0 });
                }
            }
            for l in d.layers.iter_mut().take(top) {
                l.visible = true;
                l.ox = rng.range(-2, 3) as i32;
                l.oy = rng.range(-2, 3) as i32;
            }
        }
        if law == 12 && d.layers.len() >= 3 {
            let n = d.layers.len();
            for (i, l) in d.layers.iter_mut().enumerate() {
                l.visible = true;
                l.ox = rng.range(-1, 2) as i32;
                l.oy = rng.range(-1, 2) as i32;
                l.cells.clear();
                let (top, middle) = (i == n - 1, i > 0 && i < n - 1);
                l.mode = if middle && rng.chance(2, 3) { *rng.pick(&[1u8, 2]) } else { 0 };
                if top {
                    l.alpha = true;
                }
                for y in 0..l.h {
                    for x in 0..l.w {
                        if rng.chance(1, 3) {
                            continue;
                        }
                        let (ch, fg, bg) = if top {
                            let ch = *rng.pick(&[0xDCu32, 0xDF, 0xDC, 0xDF, 0x41]);
                            match rng.usize(5) {
                                0 => (ch, TR, TR),
                                1 | 2 => (ch, rng.below(16) as u32, TR),
                                _ => (ch, TR, rng.below(8) as u32),
                            }
                        } else {
                            (*rng.pick(&[0xDCu32, 0xDF, 0xDB, 0x41, 0x20, 0xDD]), rng.below(16) as u32, rng.below(8) as u32)
                        };
                        l.cells.push(CellD { x, y, ch, fg, bg, attr: 0, fp: 0 });
                    }
                }
            }
        }
        let overlay = if law != 6 && law != 7 && law != 9 && law != 12 && law != 13 && rng.chance(1, 4) {
            let mut l = gen_layer(&mut rng, true, false);
            l.alpha = true;
            l.visible = true;
            Some((rng.usize(d.layers.len()), l))
        } else {
            None
        };
        Case13 {
            doc: d,
            overlay,
            law,
            p: (rng.usize(8), rng.range(-6, 6) as i32, rng.range(-6, 6) as i32, rng.next_u64()),
        }
    }

    fn exec(&mut self, ctx: &mut Ctx, case: &Case13) {
        let c = case.clone();
        let (out, _m) = guarded(Budgets::default(), move || run(&c));
        ctx.count(&format!("instances_L{}", case.law), 1);
        ctx.fp(crate::rng::mix(
            case.law as u64,
            crate::rng::hash_str(&format!("{:?}{:?}{:?}", case.doc.layers.iter().map(|l| (l.w, l.h, l.ox, l.oy, l.alpha, l.visible, l.mode, l.cells.len())).collect::<Vec<_>>(), case.overlay.is_some(), case.p)),
        ));
        match out {
            Outcome::Done(res) => {
                if ctx.want_sample() && ctx.evaluations % 701 == 3 {
                    ctx.sample(json!({"law": case.law, "layers": case.doc.layers.iter().map(|l| json!({"size": [l.w, l.h], "offset": [l.ox, l.oy], "alpha": l.alpha, "visible": l.visible, "mode": l.mode, "cells": l.cells.len()})).collect::<Vec<_>>(), "overlay": case.overlay.is_some(), "params": case.p}));
                }
                if let Some((key, detail)) = res {
                    let mut used = case.clone();
                    if !ctx.replay && ctx.seen(&key) == 0 {
                        for li in 0..used.doc.layers.len() {
                            let cells = shrink_list(&used.doc.layers[li].cells.clone(), 60, |cand| {
                                let mut c2 = used.clone();
                                c2.doc.layers[li].cells = cand.to_vec();
                                run(&c2).map(|(k, _)| k == key).unwrap_or(false)
                            });
                            used.doc.layers[li].cells = cells;
                        }
                    }
                    let detail = run(&used).map(|(_, d)| d).unwrap_or(detail);
                    ctx.violation(&format!("mismatch|{key}"), detail, serde_json::to_value(&used).unwrap());
                }
            }
            Outcome::Panicked(p) => ctx.panic_violation("compositing", &p, serde_json::to_value(case).unwrap()),
        }
    }
}

impl Prop for C13 {
    fn id(&self) -> &'static str {
        "C13"
    }
    fn rule(&self) -> &'static str {
        "stacks of 1..=5 layers (sizes 1..=12 x 1..=8, offsets -4..=6, normal/chars/attributes mode, alpha or opaque, visible or hidden, sparse content incl. transparent-colour half blocks, a third of the layers storing no rows beyond their last cell - none at all when they hold no cell -, optional overlay) are queried with Buffer::get_char at every position of the bounding box plus a 2-cell border before and after a transformation that the stacking laws say is invisible: L1 insert an empty alpha layer at a stack index; L2 rewrite the cells of a hidden layer; L3 translate every layer and the overlay by d and query at p+d; L4 remove all layers below a visible opaque normal-mode layer and query inside its rectangle (also where the opaque layer's own cell uses the transparent colour); L5 move a layer and query positions it covers neither before nor after; L6 compare with a 15-line reference compositor on the fragment 'all layers normal mode, no transparent colours, no overlay'; L7 on normal-mode stacks with transparent-colour cells the topmost visible cell supplies the glyph and each of its own non-transparent colours; L8 give the invisible cells of alpha layers a payload (glyph, colours, flags next to the INVISIBLE flag); L9 where the topmost cell is a half block (220/223) with one transparent colour above another half block, change the colour of the lower cell's half that lies behind the topmost cell's solid half; L10 exchange the glyphs stored in attributes-mode layers (blank <-> non-blank); L11 the first opaque contribution ends the walk: where the layers from a visible normal-mode layer i upward, with a cell of layer i at the position, show a visible cell with solid colours, the whole stack shows the same cell (two thirds of these stacks have a dense attributes- or chars-mode layer on top); L12 a transparent colour shows the cell beneath as it is displayed: where the topmost cell (alpha layer, only normal-mode layers above) has one transparent colour and a solid cell follows beneath before any opaque layer, the position shows that cell resolved with Buffer::make_solid_color against what the position shows once the cell is taken away - with chars- and attributes-mode layers in between - and nothing transparent is left over a solid cell, also when both colours of the topmost cell were transparent; L13 a chars-mode layer contributes glyphs only: where the first normal-mode contribution is a cell with solid colours, the colours shown are the same with every chars-mode layer hidden; L14 the colours stored in the non-blank cells of chars-mode layers (every glyph but NUL and space, 0xFF included) are irrelevant. Invisible results are compared as invisible only. distinct_nontrivial = distinct (law, stack shape, parameters) instances"
    }
    fn meta(&self, ctx: &Ctx) -> Value {
        json!({"floor_evaluations": 5000, "floor_distinct": ctx.tier.pick(5000u64, 100000u64),
               "assumptions": ["all layers use default font page 0"]})
    }
    fn total(&mut self, ctx: &Ctx) -> u64 {
        ctx.tier.pick(600_000, 5_000_000)
    }
    fn run_case(&mut self, ctx: &mut Ctx, k: u64) {
        let case = self.case_for(ctx, k);
        ctx.begin(k);
        self.exec(ctx, &case);
    }
    fn replay(&mut self, ctx: &mut Ctx, case: &Value) {
        let c: Case13 = serde_json::from_value(case.clone()).expect("c13 case");
        ctx.begin(0);
        self.exec(ctx, &c);
    }
}
