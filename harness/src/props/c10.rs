//! C10 — stored text is always valid Unicode.
//!
//! Native part: a raw-bits monitor reads every stored `char` as u32 through a volatile
//! pointer read (so the compiler's range assumption cannot fold the check away) and
//! re-validates every String; the debug-assertion build additionally aborts inside
//! `char::from_u32_unchecked` on an invalid value (observed by the supervisor as a
//! worker death). Miri part (thorough): see tools/miri_run.py.
use icy_engine::{BitFont, Buffer, BufferParser, Caret, Layer, TextAttribute, TextPane};
use serde::{Deserialize, Serialize};
use serde_json::{json, Value};

use crate::ctx::Ctx;
use crate::files;
use crate::mon::{guarded, Budgets, Outcome, PanicKind};
use crate::rng::Rng;
use crate::Prop;

#[derive(Clone, Debug, Serialize, Deserialize)]
pub struct C10Case {
    /// "fill" (values), "clipboard" (u16 values), "icy" (bytes), "font" (bytes), "hexmacro" (byte pairs), "stream" (bytes)
    pub kind: String,
    #[serde(default)]
    pub values: Vec<u32>,
    #[serde(default)]
    pub bytes: Vec<u8>,
    #[serde(default)]
    pub note: String,
}

fn valid_scalar(v: u32) -> bool {
    v <= 0xD7FF || (0xE000..=0x10FFFF).contains(&v)
}

fn raw_bits(c: &char) -> u32 {
    // read the 4 bytes of the char without telling the compiler that it is a char
    unsafe { std::ptr::read_volatile(c as *const char as *const u32) }
}

#[derive(Default)]
struct Scan {
    cells: u64,
    strings: u64,
    bad: Vec<String>,
}

fn scan_str(scan: &mut Scan, what: &str, s: &str) {
    scan.strings += 1;
    // the bytes of a String are what they are; validate them independently of the type
    let bytes = unsafe { std::slice::from_raw_parts(s.as_ptr(), s.len()) };
    if std::str::from_utf8(bytes).is_err() {
        scan.bad.push(format!("{what}: String holds invalid UTF-8 {:?}", &bytes[..bytes.len().min(16)]));
    }
}

fn scan_layer(scan: &mut Scan, what: &str, l: &Layer) {
    scan_str(scan, &format!("{what}.title"), &l.properties.title);
    for (y, line) in l.lines.iter().enumerate() {
        for (x, c) in line.chars.iter().enumerate() {
            scan.cells += 1;
            let v = raw_bits(&c.ch);
            if !valid_scalar(v) {
                scan.bad.push(format!("{what} cell ({x},{y}) holds {v:#x}, not a Unicode scalar value"));
                if scan.bad.len() > 4 {
                    return;
                }
            }
        }
    }
}

fn scan_font(scan: &mut Scan, what: &str, f: &BitFont) {
    scan_str(scan, &format!("{what}.name"), &f.name);
    for k in f.glyphs.keys() {
        scan.cells += 1;
        let v = raw_bits(k);
        if !valid_scalar(v) {
            scan.bad.push(format!("{what} glyph key {v:#x} is not a Unicode scalar value"));
            if scan.bad.len() > 4 {
                return;
            }
        }
    }
}

fn scan_buffer(scan: &mut Scan, buf: &Buffer) {
    for (i, l) in buf.layers.iter().enumerate() {
        scan_layer(scan, &format!("layer {i}"), l);
    }
    for (slot, f) in buf.font_iter() {
        scan_font(scan, &format!("font {slot}"), f);
    }
    scan_str(scan, "palette.title", &buf.palette.title);
    scan_str(scan, "palette.description", &buf.palette.description);
    scan_str(scan, "palette.author", &buf.palette.author);
    if let Some(s) = buf.get_sauce() {
        if let Some(f) = &s.font_opt {
            scan_str(scan, "sauce.font", f);
        }
        // the text a SAUCE field hands out (CP437 bytes converted to a String)
        scan_str(scan, "sauce.title", &s.title.to_string());
        scan_str(scan, "sauce.author", &s.author.to_string());
        scan_str(scan, "sauce.group", &s.group.to_string());
        for (i, c) in s.comments.iter().enumerate() {
            scan_str(scan, &format!("sauce.comment {i}"), &c.to_string());
        }
    }
    // the composited view returns chars as well
    for y in 0..buf.get_height().min(64) {
        for x in 0..buf.get_width().min(200) {
            let c = buf.get_char((x, y));
            scan.cells += 1;
            let v = raw_bits(&c.ch);
            if !valid_scalar(v) {
                scan.bad.push(format!("Buffer::get_char(({x},{y})) returns {v:#x}"));
                return;
            }
        }
    }
}

/// an IcyDraw file around hand-made chunks (PNG frame taken from a seed written by the engine)
pub fn icy_file(frame: &[u8], chunks: &[(String, Vec<u8>)]) -> Vec<u8> {
    icy_file_modes(frame, chunks, None)
}

/// the same with the mode fields of the ICED header (buffer type, ice / palette / font mode) replaced
pub fn icy_file_modes(frame: &[u8], chunks: &[(String, Vec<u8>)], modes: Option<(u16, u8, u8, u8)>) -> Vec<u8> {
    let parts = files::png_split(frame).unwrap_or_default();
    let mut out = Vec::new();
    let mut inserted = false;
    for c in parts {
        if &c.kind == b"zTXt" {
            // keep only the ICED header chunk of the seed
            if let Some((kw, _)) = files::ztxt_decode(&c) {
                if kw == "ICED" {
                    match (modes, files::ztxt_decode(&c)) {
                        (Some((bt, ice, pal, font)), Some((_, mut payload))) if payload.len() >= 11 => {
                            payload[6..8].copy_from_slice(&bt.to_le_bytes());
                            payload[8] = ice;
                            payload[9] = pal;
                            payload[10] = font;
                            out.push(files::ztxt_encode("ICED", &payload));
                        }
                        _ => out.push(c),
                    }
                    continue;
                }
            }
            if !inserted {
                for (kw, payload) in chunks {
                    out.push(files::ztxt_encode(kw, payload));
                }
                out.push(files::ztxt_encode("END", &[]));
                inserted = true;
            }
            continue;
        }
        out.push(c);
    }
    files::png_join(&out)
}

pub fn layer_header(title: &[u8], w: i32, h: i32, data_len: u64) -> Vec<u8> {
    layer_header_fp(title, w, h, data_len, 0)
}

pub fn layer_header_fp(title: &[u8], w: i32, h: i32, data_len: u64, font_page: u16) -> Vec<u8> {
    let mut p = Vec::new();
    p.extend((title.len() as u32).to_le_bytes());
    p.extend_from_slice(title);
    p.push(0); // role
    p.extend([0, 0, 0, 0]);
    p.push(0); // mode
    p.extend([0, 0, 0, 0]); // colour
    p.extend(1u32.to_le_bytes()); // flags: visible
    p.push(0);
    p.extend(0i32.to_le_bytes());
    p.extend(0i32.to_le_bytes());
    p.extend(w.to_le_bytes());
    p.extend(h.to_le_bytes());
    p.extend(font_page.to_le_bytes());
    p.extend(data_len.to_le_bytes());
    p
}

pub fn long_cell(ch: u32) -> Vec<u8> {
    let mut c = Vec::new();
    c.extend(0u16.to_le_bytes()); // attr without SHORT_DATA => long form
    c.extend(ch.to_le_bytes());
    c.extend(7u32.to_le_bytes());
    c.extend(0u32.to_le_bytes());
    c.extend(0u16.to_le_bytes());
    c
}

#[derive(Default)]
pub struct C10 {
    frame: Vec<u8>,
    n_fill: u64,
    fill_step: u64,
}

const BAD_UTF8: [&[u8]; 8] = [&[0xFF], &[0xC0, 0x80], &[0xED, 0xA0, 0x80], &[0xF4, 0x90, 0x80, 0x80], &[0xE2, 0x82], &[0x80], &[0xF8, 0x88, 0x80, 0x80, 0x80], &[b'a', 0xC3]];

impl C10 {
    fn case_for(&self, ctx: &Ctx, k: u64) -> C10Case {
        // fixed part
        if k < self.n_fill {
            // fill-rectangle parameter values: a block of consecutive values per case
            let start = k * self.fill_step * 64;
            let values: Vec<u32> = (0..64).map(|i| (start + i * self.fill_step) as u32).filter(|v| *v <= 0x11_0010).collect();
            return C10Case { kind: "fill".into(), values, bytes: vec![], note: "consecutive".into() };
        }
        let k2 = k - self.n_fill;
        match k2 {
            0 => {
                // surrogates and boundaries, powers of two +-1
                let mut values: Vec<u32> = vec![0, 1, 0x7F, 0x80, 0xFF, 0x100, 0xD7FF, 0xD800, 0xD801, 0xDBFF, 0xDC00, 0xDFFF, 0xE000, 0xFFFF, 0x10000, 0x10FFFF, 0x110000, 0x110001];
                for s in 1..31u32 {
                    let p = 1u32 << s;
                    values.extend([p - 1, p, p + 1]);
                }
                values.push(0x7FFF_FFFF);
                C10Case { kind: "fill".into(), values, bytes: vec![], note: "boundaries and 2^k+-1".into() }
            }
            1..=32 => {
                // all 2048 surrogates, 64 per case
                let b = 0xD800 + (k2 as u32 - 1) * 64;
                C10Case { kind: "fill".into(), values: (b..b + 64).collect(), bytes: vec![], note: "surrogates".into() }
            }
            33..=48 => {
                // all 65536 clipboard values, 4096 per case
                let b = (k2 as u32 - 33) * 4096;
                C10Case { kind: "clipboard".into(), values: (b..b + 4096).collect(), bytes: vec![], note: String::new() }
            }
            49..=80 => {
                // IcyDraw long-form cells: all surrogates (64 per case) in the first chunk
                let b = 0xD800 + (k2 as u32 - 49) * 64;
                C10Case { kind: "icy-cells".into(), values: (b..b + 64).collect(), bytes: vec![], note: "first chunk".into() }
            }
            81..=112 => {
                let b = 0xD800 + (k2 as u32 - 81) * 64;
                C10Case { kind: "icy-cells-cont".into(), values: (b..b + 64).collect(), bytes: vec![], note: "continuation chunk".into() }
            }
            113 => C10Case {
                kind: "icy-cells".into(),
                values: vec![0x110000, 0x110001, 0x7FFF_FFFF, 0x8000_0000, 0xFFFF_FFFF, 0xD7FF, 0xE000, 0x10FFFF, 0x1F600],
                bytes: vec![],
                note: "boundaries".into(),
            },
            114 => C10Case {
                kind: "icy-cells-cont".into(),
                values: vec![0x110000, 0x110001, 0x7FFF_FFFF, 0x8000_0000, 0xFFFF_FFFF, 0xD7FF, 0xE000, 0x10FFFF, 0x1F600],
                bytes: vec![],
                note: "boundaries".into(),
            },
            115..=122 => C10Case { kind: "icy-title".into(), values: vec![], bytes: BAD_UTF8[(k2 - 115) as usize].to_vec(), note: "invalid UTF-8 layer title".into() },
            123..=130 => C10Case { kind: "icy-fontname".into(), values: vec![], bytes: BAD_UTF8[(k2 - 123) as usize].to_vec(), note: "invalid UTF-8 font name".into() },
            131..=138 => {
                // font data lengths crossing 0xD800 glyphs
                let glyphs: u32 = [1u32, 255, 256, 512, 0xD7FF, 0xD800, 0xE001, 1 << 17][(k2 - 131) as usize];
                C10Case { kind: "font".into(), values: vec![glyphs], bytes: vec![], note: "glyph count".into() }
            }
            139..=394 => {
                // all 256 x 256 hex macro byte pairs, one first byte per case
                C10Case { kind: "hexmacro".into(), values: vec![(k2 - 139) as u32], bytes: vec![], note: String::new() }
            }
            395..=426 => {
                // all surrogates again, on the font page of an embedded PSF2 font with more than 0xE000 glyphs (a loader that
                // trusts "below the glyph count of the layer's font" meets the surrogate hole there)
                let b = 0xD800 + (k2 as u32 - 395) * 64;
                C10Case { kind: "icy-cells".into(), values: (b..b + 64).collect(), bytes: vec![], note: "first chunk, bigfont".into() }
            }
            427..=458 => {
                let b = 0xD800 + (k2 as u32 - 427) * 64;
                C10Case { kind: "icy-cells-cont".into(), values: (b..b + 64).collect(), bytes: vec![], note: "continuation chunk, bigfont".into() }
            }
            459..=474 => {
                // clipboard records with a surrogate as character under all 65536 attribute words, 4096 per case
                let b = (k2 as u32 - 459) * 4096;
                C10Case { kind: "clipboard".into(), values: (b..b + 4096).collect(), bytes: vec![], note: "attr-sweep".into() }
            }
            475..=730 => {
                // SAUCE text fields: every byte value between printable ASCII (a fast path for "plain" text meets its limits)
                let b = (k2 - 475) as u8;
                C10Case { kind: "sauce".into(), values: vec![b as u32], bytes: vec![b'F', b'a', b, b'a', b'd', b'e'], note: "one byte between ASCII".into() }
            }
            _ => {
                let mut rng = ctx.rng(k);
                if rng.chance(1, 8) {
                    let n = 1 + rng.usize(30);
                    let bytes: Vec<u8> = (0..n).map(|_| if rng.chance(1, 3) { rng.byte() } else { 0x20 + rng.usize(0x61) as u8 }).collect();
                    return C10Case { kind: "sauce".into(), values: vec![], bytes, note: "random field".into() };
                }
                match rng.usize(6) {
                    0 => C10Case { kind: "fill".into(), values: (0..64).map(|_| if rng.bool() { 0x11_0000 + rng.below(0x7FEE_FFFF) as u32 } else { rng.below(0x11_0000) as u32 }).collect(), bytes: vec![], note: "random".into() },
                    1 => C10Case { kind: "icy-cells".into(), values: (0..40).map(|_| rng.next_u32()).collect(), bytes: vec![], note: "random".into() },
                    2 => C10Case { kind: "icy-cells-cont".into(), values: (0..40).map(|_| rng.next_u32()).collect(), bytes: vec![], note: "random".into() },
                    3 => {
                        let n = 1 + rng.usize(12);
                        C10Case { kind: if rng.bool() { "icy-title".into() } else { "icy-fontname".into() }, values: vec![], bytes: rng.bytes(n), note: "random bytes".into() }
                    }
                    4 => {
                        // random stream aimed at the sub-languages that build strings
                        let mut bytes = Vec::new();
                        for _ in 0..(1 + rng.usize(6)) {
                            crate::gen_stream::dcs(&mut rng, &mut bytes, false);
                            crate::gen_stream::osc(&mut rng, &mut bytes);
                        }
                        C10Case { kind: "stream".into(), values: vec![], bytes, note: String::new() }
                    }
                    _ => C10Case { kind: "clipboard".into(), values: (0..64).map(|_| rng.below(65536) as u32).collect(), bytes: vec![], note: "random".into() },
                }
            }
        }
    }

    fn exec(&mut self, ctx: &mut Ctx, case: &C10Case) {
        let frame = self.frame.clone();
        let c = case.clone();
        let (out, _m) = guarded(Budgets::default(), move || {
            let mut scan = Scan::default();
            let mut results = 0u64;
            match c.kind.as_str() {
                "fill" => {
                    for v in &c.values {
                        let mut buf = Buffer::create((20, 4));
                        buf.is_terminal_buffer = true;
                        let mut caret = Caret::default();
                        let mut p = icy_engine::ansi::Parser::default();
                        let seq = format!("\x1b[{v};1;1;3;10$x");
                        for ch in seq.chars() {
                            if p.print_char(&mut buf, 0, &mut caret, ch).is_err() {
                                results += 1;
                            }
                        }
                        scan_buffer(&mut scan, &buf);
                    }
                }
                "sauce" => {
                    // "x" + EOF + COMNT block + SAUCE record whose text fields all carry the case's bytes
                    let field = |n: usize, pad: u8| -> Vec<u8> {
                        let mut v = c.bytes.clone();
                        v.truncate(n);
                        v.resize(n, pad);
                        v
                    };
                    let mut file = b"x\x1aCOMNT".to_vec();
                    file.extend(field(64, 0));
                    file.extend_from_slice(b"SAUCE00");
                    file.extend(field(35, b' '));
                    file.extend(field(20, b' '));
                    file.extend(field(20, b' '));
                    file.extend_from_slice(b"19970401");
                    file.extend(1u32.to_le_bytes());
                    file.extend([1u8, 1]);
                    file.extend(80u16.to_le_bytes());
                    file.extend(25u16.to_le_bytes());
                    file.extend([0u8; 4]);
                    file.extend([1u8, 0]);
                    file.extend(field(22, 0));
                    if let Ok(Some(sd)) = icy_engine::SauceData::extract(&file) {
                        results += 1;
                        scan_str(&mut scan, "extract.title", &sd.title.to_string());
                        scan_str(&mut scan, "extract.author", &sd.author.to_string());
                        scan_str(&mut scan, "extract.group", &sd.group.to_string());
                        for cm in &sd.comments {
                            scan_str(&mut scan, "extract.comment", &cm.to_string());
                        }
                        if let Some(f) = &sd.font_opt {
                            scan_str(&mut scan, "extract.font", f);
                        }
                    }
                    if let Ok(buf) = Buffer::from_bytes(std::path::Path::new("s.ans"), false, &file) {
                        results += 1;
                        scan_buffer(&mut scan, &buf);
                    }
                }
                "clipboard" => {
                    let n = c.values.len();
                    let mut data = vec![0u8];
                    data.extend(0i32.to_le_bytes());
                    data.extend(0i32.to_le_bytes());
                    data.extend((n as u32).to_le_bytes());
                    data.extend(1u32.to_le_bytes());
                    let head = data.clone();
                    // the other fields of the 14-byte record: (attribute word, font page, background, foreground). Enumerated
                    // cases run every value under each template (plain, each single flag bit - 0x8000 is INVISIBLE, the
                    // record of a cell outside the selection -, all bits, transparent colours); "attr-sweep" cases hold the
                    // character at a surrogate and run every attribute word
                    let mut templates: Vec<(u16, u16, u32, u32)> = vec![(0, 0, 0, 7)];
                    if c.note == "random" {
                        let h = crate::rng::hash_str(&format!("{:?}", c.values));
                        templates = vec![(h as u16, (h >> 16) as u16, (h >> 32) as u32 & 0x8000_00FF, (h >> 40) as u32 & 0x8000_00FF)];
                    } else if c.note != "attr-sweep" {
                        templates.extend((0..16).map(|b| (1u16 << b, 0u16, 0u32, 7u32)));
                        templates.push((0xFFFF, 0xFFFF, 0xFFFF_FFFF, 0xFFFF_FFFF));
                        templates.push((0xC000, 1, TextAttribute::TRANSPARENT_COLOR, TextAttribute::TRANSPARENT_COLOR));
                    }
                    for (attr, fp, bg, fg) in templates {
                        data.clear();
                        data.extend(&head);
                        for (i, v) in c.values.iter().enumerate() {
                            if c.note == "attr-sweep" {
                                data.extend(([0xD800u16, 0xDFFF, 0xDBFF, 0xDC00][i % 4]).to_le_bytes());
                                data.extend((*v as u16).to_le_bytes());
                            } else {
                                data.extend((*v as u16).to_le_bytes());
                                data.extend(attr.to_le_bytes());
                            }
                            data.extend(fp.to_le_bytes());
                            data.extend(bg.to_le_bytes());
                            data.extend(fg.to_le_bytes());
                        }
                        if let Some(l) = Layer::from_clipboard_data(&data) {
                            scan_layer(&mut scan, "clipboard layer", &l);
                            results += 1;
                        }
                    }
                }
                "icy-cells" | "icy-cells-cont" | "icy-title" | "icy-fontname" => {
                    let mut chunks: Vec<(String, Vec<u8>)> = Vec::new();
                    let w = c.values.len().max(1) as i32;
                    let bigfont = c.note.contains("bigfont");
                    let fp: u16 = if bigfont { 7 } else { 0 };
                    if bigfont {
                        // FONT_7: name + PSF2 font, 57400 glyphs of 8x1
                        let n: u32 = 57_400;
                        let mut f = Vec::new();
                        f.extend(3u32.to_le_bytes());
                        f.extend_from_slice(b"big");
                        f.extend([0x72, 0xb5, 0x4a, 0x86]);
                        for v in [0u32, 32, 0, n, 1, 1, 8] {
                            f.extend(v.to_le_bytes());
                        }
                        f.extend((0..n).map(|i| i as u8));
                        chunks.push(("FONT_7".into(), f));
                    }
                    match c.kind.as_str() {
                        "icy-cells" => {
                            let mut cells = Vec::new();
                            for v in &c.values {
                                cells.extend(long_cell(*v));
                            }
                            let mut p = layer_header_fp(b"L", w, 1, cells.len() as u64, fp);
                            p.extend(cells);
                            chunks.push(("LAYER_0".into(), p));
                        }
                        "icy-cells-cont" => {
                            // first chunk holds row 0 only, the continuation chunk brings row 1
                            let mut first = Vec::new();
                            for _ in 0..w {
                                first.extend(long_cell(0x41));
                            }
                            let mut p = layer_header_fp(b"L", w, 2, first.len() as u64, fp);
                            p.extend(first);
                            chunks.push(("LAYER_0".into(), p));
                            let mut cells = Vec::new();
                            for v in &c.values {
                                cells.extend(long_cell(*v));
                            }
                            chunks.push(("LAYER_0~1".into(), cells));
                        }
                        "icy-title" => {
                            let mut p = layer_header(&c.bytes, 1, 1, 14);
                            p.extend(long_cell(0x41));
                            chunks.push(("LAYER_0".into(), p));
                        }
                        _ => {
                            let mut f = Vec::new();
                            f.extend((c.bytes.len() as u32).to_le_bytes());
                            f.extend_from_slice(&c.bytes);
                            if let Ok(font) = BitFont::from_ansi_font_page(0) {
                                if let Ok(psf) = font.to_psf2_bytes() {
                                    f.extend(psf);
                                }
                            }
                            chunks.push(("FONT_2".into(), f));
                            let mut p = layer_header(b"L", 1, 1, 14);
                            p.extend(long_cell(0x41));
                            chunks.push(("LAYER_0".into(), p));
                        }
                    }
                    // under the header the writer made (CP437 buffer) and under every other declared buffer type / mode
                    // byte, also undefined ones: what a cell may hold does not depend on what the header claims
                    for modes in [None, Some((0u16, 0u8, 0u8, 0u8)), Some((2, 1, 1, 1)), Some((3, 2, 2, 2)), Some((4, 0, 3, 3)), Some((9, 9, 9, 9)), Some((0xFFFF, 0xFF, 0xFF, 0xFF))] {
                        let file = icy_file_modes(&frame, &chunks, modes);
                        match Buffer::from_bytes(std::path::Path::new("x.icy"), false, &file) {
                            Ok(buf) => {
                                results += 1;
                                scan_buffer(&mut scan, &buf);
                            }
                            Err(_) => {}
                        }
                    }
                }
                "font" => {
                    let glyphs = c.values.first().copied().unwrap_or(256) as usize;
                    // PSF1 with height 1
                    let mut psf1 = vec![0x36, 0x04, 0, 1];
                    psf1.extend((0..glyphs).map(|i| i as u8));
                    if let Ok(f) = BitFont::from_bytes("psf1", &psf1) {
                        scan_font(&mut scan, "psf1 font", &f);
                        results += 1;
                        // the encoders walk 0..length and build chars again
                        let _ = f.convert_to_u8_data();
                        let _ = f.to_psf2_bytes();
                    }
                    let mut psf2 = vec![0x72, 0xb5, 0x4a, 0x86];
                    for v in [0u32, 32, 0, glyphs as u32, 1, 1, 8] {
                        psf2.extend(v.to_le_bytes());
                    }
                    psf2.extend((0..glyphs).map(|i| i as u8));
                    if let Ok(mut f) = BitFont::from_bytes("psf2", &psf2) {
                        scan_font(&mut scan, "psf2 font", &f);
                        results += 1;
                        f.calculate_checksum();
                        let _ = f.convert_to_u8_data();
                        let _ = f.to_psf2_bytes();
                        let _ = f.encode_as_ansi(1);
                    }
                    let raw: Vec<u8> = (0..glyphs).map(|i| i as u8).collect();
                    let f = BitFont::create_8("raw", 8, 1, &raw);
                    scan_font(&mut scan, "create_8 font", &f);
                    let f = BitFont::from_basic(8, 1, &raw);
                    scan_font(&mut scan, "from_basic font", &f);
                }
                "hexmacro" => {
                    let a = c.values.first().copied().unwrap_or(0) as u8;
                    let mut buf = Buffer::create((20, 4));
                    buf.is_terminal_buffer = true;
                    let mut caret = Caret::default();
                    let mut p = icy_engine::ansi::Parser::default();
                    for b in 0..=255u8 {
                        let seq = format!("\x1bP{};0;1!z{:02X}{:02x}\x1b\\", b as usize % 8, a, b);
                        for ch in seq.chars() {
                            let _ = p.print_char(&mut buf, 0, &mut caret, ch);
                        }
                        for (id, m) in p.verif_macros() {
                            scan_str(&mut scan, &format!("macro {id}"), m);
                            for ch in m.chars() {
                                scan.cells += 1;
                                if !valid_scalar(raw_bits(&ch)) {
                                    scan.bad.push(format!("macro {id} holds an invalid char"));
                                }
                            }
                        }
                        // replay it: the bytes end up on the screen
                        for ch in format!("\x1b[{}*z", b as usize % 8).chars() {
                            let _ = p.print_char(&mut buf, 0, &mut caret, ch);
                        }
                    }
                    scan_buffer(&mut scan, &buf);
                }
                _ => {
                    let mut buf = Buffer::create((80, 25));
                    buf.is_terminal_buffer = true;
                    let mut caret = Caret::default();
                    let mut p = icy_engine::ansi::Parser::default();
                    for b in &c.bytes {
                        let _ = p.print_char(&mut buf, 0, &mut caret, *b as char);
                    }
                    while let Some(h) = buf.sixel_threads.pop_front() {
                        let _ = h.join();
                    }
                    for (id, m) in p.verif_macros() {
                        scan_str(&mut scan, &format!("macro {id}"), m);
                    }
                    for l in &p.hyper_links {
                        if let Some(u) = &l.url {
                            scan_str(&mut scan, "hyperlink", u);
                        }
                    }
                    scan_buffer(&mut scan, &buf);
                }
            }
            (scan, results)
        });
        let _ = crate::stream::wait_decodes_idle();
        let _ = crate::mon::take_other_thread_panics();
        ctx.count(&format!("cases_{}", case.kind), 1);
        match out {
            Outcome::Done((scan, results)) => {
                ctx.count("chars_checked", scan.cells);
                ctx.count("strings_checked", scan.strings);
                ctx.count("values_tried", case.values.len() as u64);
                ctx.fp(crate::rng::mix(crate::rng::hash_str(&case.kind) ^ crate::rng::hash_str(&case.note), case.values.first().copied().unwrap_or(0) as u64 ^ crate::rng::hash_bytes(&case.bytes) ^ results << 50));
                if ctx.want_sample() && ctx.evaluations % 41 == 7 {
                    ctx.sample(json!({"kind": case.kind, "note": case.note, "first_values": case.values.iter().take(6).collect::<Vec<_>>(), "bytes": case.bytes.iter().take(16).collect::<Vec<_>>(), "chars_checked": scan.cells, "strings_checked": scan.strings}));
                }
                if let Some(b) = scan.bad.first() {
                    ctx.violation(&format!("invalid-unicode|{}", case.kind), json!({"what": b, "all": scan.bad, "note": case.note}), serde_json::to_value(case).unwrap());
                }
            }
            Outcome::Panicked(p) => match p.kind {
                PanicKind::Engine => ctx.count("cases_ended_by_engine_panic_(C01/C02)", 1),
                _ => ctx.count("resource_events", 1),
            },
        }
    }
}

impl Prop for C10 {
    fn id(&self) -> &'static str {
        "C10"
    }
    fn rule(&self) -> &'static str {
        "after every case a raw-bits monitor reads every stored char of every layer, every glyph-table key and every composited cell as u32 (volatile read) and checks 0..=0xD7FF | 0xE000..=0x10FFFF, and re-validates the bytes of every String (titles, font names, macro bodies via hook H5, hyperlinks, palette strings) with str::from_utf8; the verdict-bearing build has debug assertions, so an invalid value passed to char::from_u32_unchecked aborts the worker (attributed to the case). cases: fill-rectangle (DECFRA) character parameter - every value 0..=0x110010 in thorough (every 4th in quick) plus all 2048 surrogates, boundaries, 2^k+-1 up to 2^31-1; all 65536 clipboard cell values under 19 record templates (plain, each single attribute flag bit - 0x8000 marks the cells outside a selection -, all bits set, transparent colours) and the surrogates under all 65536 attribute words; IcyDraw long-form cells with all surrogates / boundaries / random 32-bit values in first and continuation chunks, each file under the header's own and six other declared buffer types / mode bytes (Unicode, PETSCII, ATASCII, Viewdata, undefined) (the surrogates also on the font page of an embedded PSF2 font with 57400 glyphs); layer titles and font names with 8 invalid-UTF-8 classes and random bytes; font data of 1..2^17 glyphs (PSF1, PSF2, create_8, from_basic, re-encoders); all 256x256 hex-macro byte pairs; SAUCE text fields (title, author, group, comment, font name) with every byte value between printable ASCII and random CP437 bytes, read through SauceData::extract and through a loaded buffer; random DCS/OSC streams. distinct_nontrivial = distinct (kind, first value / payload, accepted count) fingerprints"
    }
    fn meta(&self, ctx: &Ctx) -> Value {
        json!({"floor_evaluations": 1000, "floor_distinct": ctx.tier.pick(500u64, 2000u64),
               "assumptions": ["reading a char through a raw pointer as u32 observes the stored bits", "thorough additionally runs the unchecked-conversion sites under Miri (tools/miri_run.py); its result is merged into the evidence"]})
    }
    fn total(&mut self, ctx: &Ctx) -> u64 {
        self.frame = files::build_corpus().into_iter().find(|s| s.name == "tiny.icy").map(|s| s.bytes).unwrap_or_default();
        self.fill_step = ctx.tier.pick(4, 1);
        self.n_fill = (0x11_0010u64 / (64 * self.fill_step)) + 1;
        self.n_fill + 731 + ctx.tier.pick(20_000, 200_000)
    }
    fn run_case(&mut self, ctx: &mut Ctx, k: u64) {
        let case = self.case_for(ctx, k);
        ctx.begin(k);
        self.exec(ctx, &case);
    }
    fn replay(&mut self, ctx: &mut Ctx, case: &Value) {
        let c: C10Case = serde_json::from_value(case.clone()).expect("c10 case");
        ctx.begin(0);
        self.exec(ctx, &c);
    }
}

#[allow(dead_code)]
fn unused(_: &mut Rng) {}
