//! Token grammars for the terminal emulations (C01, C03, C09, C10).
use crate::rng::Rng;

pub const CSI_INTERMEDIATES: [&str; 8] = ["", " ", "$", "*", "?", "=", "!", "<"];

/// boundary values for a numeric parameter on a w x h screen; `huge` adds the
/// magnitudes that only matter for resource bounds
pub fn boundary(rng: &mut Rng, w: i32, h: i32, huge: bool) -> Option<i64> {
    let size = if rng.bool() { w } else { h } as i64;
    let small: [Option<i64>; 14] = [
        None,
        Some(0),
        Some(1),
        Some(2),
        Some(size / 2),
        Some(size - 1),
        Some(size),
        Some(size + 1),
        Some(3),
        Some(4),
        Some(5),
        Some(6),
        Some(8),
        Some(25),
    ];
    let big: [i64; 8] = [255, 256, 9999, 65535, 65536, 1_000_000, 2_147_483_647, 99_999_999_999];
    if huge && rng.chance(1, 3) {
        Some(*rng.pick(&big))
    } else if rng.chance(1, 8) {
        Some(rng.range(0, 300))
    } else {
        *rng.pick(&small)
    }
}

pub fn push_params(out: &mut Vec<u8>, params: &[Option<i64>]) {
    for (i, p) in params.iter().enumerate() {
        if i > 0 {
            out.push(b';');
        }
        if let Some(v) = p {
            out.extend_from_slice(v.to_string().as_bytes());
        }
    }
}

pub fn csi(out: &mut Vec<u8>, prefix: &str, params: &[Option<i64>], inter: &str, fin: u8) {
    out.extend_from_slice(b"\x1b[");
    out.extend_from_slice(prefix.as_bytes());
    push_params(out, params);
    out.extend_from_slice(inter.as_bytes());
    out.push(fin);
}

fn printable_run(rng: &mut Rng, out: &mut Vec<u8>, max: usize) {
    let n = 1 + rng.usize(max);
    let kind = rng.usize(4);
    for _ in 0..n {
        let b = match kind {
            0 => b'a' + rng.usize(26) as u8,
            1 => 0x20 + rng.usize(0x5F) as u8,
            2 => 0x80 + rng.usize(0x80) as u8,
            _ => *rng.pick(b"#@X |^~"),
        };
        out.push(b);
    }
}

const C0: [u8; 12] = [0x0A, 0x0D, 0x0C, 0x08, 0x09, 0x07, 0x7F, 0x00, 0xFF, 0x0B, 0x0E, 0x1A];

/// known final bytes with the shape of parameters they take (for biased, well-formed generation)
const CSI_FINALS: &[u8] = b"@ABCDEFGHJKLMPSTXYZ`abcdefghjklmnrstu~'|N";

pub fn sgr(rng: &mut Rng, out: &mut Vec<u8>) {
    let n = rng.usize(5);
    let mut params = Vec::new();
    for _ in 0..n {
        let v = match rng.usize(10) {
            0 => 0,
            1 => 1,
            2 => *rng.pick(&[2i64, 3, 4, 5, 6, 7, 8, 9, 21, 22, 23, 24, 25, 27, 28, 29, 53, 55, 10, 11, 20]),
            3 | 4 => 30 + rng.range(0, 7),
            5 | 6 => 40 + rng.range(0, 7),
            7 => *rng.pick(&[39i64, 49, 90, 97, 100, 107, 38, 48, 58, 99, 108, 1000]),
            8 => {
                // extended colours
                let base = if rng.bool() { 38 } else { 48 };
                params.push(Some(base));
                if rng.bool() {
                    params.push(Some(5));
                    params.push(Some(*rng.pick(&[0i64, 1, 15, 16, 231, 255, 256, 9999])));
                } else {
                    params.push(Some(2));
                    for _ in 0..rng.usize(4) {
                        params.push(Some(*rng.pick(&[0i64, 1, 127, 255, 256, 70000])));
                    }
                }
                continue;
            }
            _ => rng.range(0, 120),
        };
        params.push(Some(v));
    }
    csi(out, "", &params, "", b'm');
}

fn sixel_payload(rng: &mut Rng, out: &mut Vec<u8>, huge: bool) {
    let n = rng.usize(24);
    if rng.chance(1, 3) {
        // raster attributes
        out.push(b'"');
        let k = 1 + rng.usize(5);
        for i in 0..k {
            if i > 0 {
                out.push(b';');
            }
            let v = if huge && rng.chance(1, 3) { *rng.pick(&[65535i64, 1_000_000, 2_147_483_647]) } else { rng.range(0, 40) };
            out.extend_from_slice(v.to_string().as_bytes());
        }
    }
    for _ in 0..n {
        match rng.usize(10) {
            0 => {
                out.push(b'#');
                out.extend_from_slice(rng.range(0, 300).to_string().as_bytes());
                if rng.chance(1, 2) {
                    let k = rng.usize(6);
                    for _ in 0..k {
                        out.push(b';');
                        out.extend_from_slice(rng.range(0, 400).to_string().as_bytes());
                    }
                }
            }
            1 => {
                out.push(b'!');
                let v = if huge && rng.chance(1, 3) { *rng.pick(&[65535i64, 1_000_000, 2_147_483_647]) } else { rng.range(0, 500) };
                if rng.chance(9, 10) {
                    out.extend_from_slice(v.to_string().as_bytes());
                }
                out.push(0x3F + rng.usize(64) as u8);
            }
            2 => out.push(b'$'),
            3 => out.push(b'-'),
            4 => out.push(rng.byte()),
            _ => out.push(0x3F + rng.usize(64) as u8),
        }
    }
}

fn base64(data: &[u8]) -> Vec<u8> {
    use base64::Engine;
    base64::engine::general_purpose::STANDARD.encode(data).into_bytes()
}

fn font_payload(rng: &mut Rng, huge: bool) -> Vec<u8> {
    match rng.usize(6) {
        0 => {
            // PSF1
            let h = *rng.pick(&[0u8, 1, 8, 14, 16, 32, 255]);
            let mut d = vec![0x36, 0x04, rng.byte() & 3, h];
            let n = *rng.pick(&[0usize, 1, 16, 255, 256, 4096]);
            d.extend(rng.bytes(n));
            d
        }
        1 => {
            // PSF2
            let mut d = vec![0x72, 0xb5, 0x4a, 0x86];
            let vals: [u32; 7] = [
                *rng.pick(&[0u32, 0, 0, 1]),
                *rng.pick(&[32u32, 0, 31, 33, 4096, 0xFFFF_FFFF]),
                0,
                *rng.pick(&[0u32, 1, 2, 256, 512, if huge { 0x7FFF_FFFF } else { 300 }]),
                *rng.pick(&[0u32, 1, 8, 16, 32, if huge { 0x7FFF_FFFF } else { 64 }]),
                *rng.pick(&[0u32, 1, 8, 16, 32, if huge { 0xFFFF_FFFF } else { 64 }]),
                *rng.pick(&[0u32, 8, 9, 16, 0xFFFF_FFFF]),
            ];
            for v in vals {
                d.extend(v.to_le_bytes());
            }
            let n = *rng.pick(&[0usize, 16, 32, 256, 512, 4096]);
            d.extend(rng.bytes(n));
            d
        }
        2 => {
            let n = *rng.pick(&[0usize, 1, 2, 3, 4, 5, 255, 256, 257, 2048, 4096, 8192]);
            rng.bytes(n)
        }
        3 => {
            let n = 256 * (1 + rng.usize(32));
            rng.bytes(n)
        }
        _ => {
            let n = rng.usize(40);
            rng.bytes(n)
        }
    }
}

pub fn dcs(rng: &mut Rng, out: &mut Vec<u8>, huge: bool) {
    out.extend_from_slice(b"\x1bP");
    match rng.usize(8) {
        0 | 1 => {
            // macro definition, text
            let id = *rng.pick(&[0i64, 1, 2, 3, 63, 64, 1000]);
            let p2 = *rng.pick(&[0i64, 0, 1, 2]);
            let p3 = *rng.pick(&[0i64, 0, 0, 1, 2]);
            out.extend_from_slice(format!("{id};{p2};{p3}!z").as_bytes());
            let n = rng.usize(5);
            for _ in 0..n {
                match rng.usize(6) {
                    0 => {
                        // macro invoking a macro (incl. itself)
                        let target = if rng.bool() { id } else { *rng.pick(&[0i64, 1, 2, 3]) };
                        out.extend_from_slice(format!("\x1b[{target}*z").as_bytes());
                    }
                    1 => out.extend_from_slice(b"\x1b[2J"),
                    2 => out.extend_from_slice(b"\x1b[5;5H"),
                    _ => printable_run(rng, out, 6),
                }
            }
        }
        2 => {
            // hex macro
            let id = *rng.pick(&[0i64, 1, 2, 3, 63]);
            out.extend_from_slice(format!("{id};0;1!z").as_bytes());
            let n = rng.usize(8);
            for _ in 0..n {
                match rng.usize(6) {
                    0 => {
                        let r = if huge && rng.chance(1, 2) { *rng.pick(&[65535i64, 1_000_000, 2_147_483_647]) } else { rng.range(0, 20) };
                        out.extend_from_slice(format!("!{r};").as_bytes());
                        for _ in 0..rng.usize(4) {
                            out.extend_from_slice(format!("{:02X}", rng.byte()).as_bytes());
                        }
                        if rng.chance(3, 4) {
                            out.push(b';');
                        }
                    }
                    1 => out.push(rng.byte()),
                    2 => out.extend_from_slice(b"1B5B"),
                    _ => out.extend_from_slice(format!("{:02x}", rng.byte()).as_bytes()),
                }
            }
        }
        3 | 4 => {
            // sixel
            let k = rng.usize(4);
            for i in 0..k {
                if i > 0 {
                    out.push(b';');
                }
                out.extend_from_slice(rng.range(0, 9).to_string().as_bytes());
            }
            out.push(b'q');
            sixel_payload(rng, out, huge);
        }
        5 => {
            out.extend_from_slice(b"CTerm:Font:");
            if rng.chance(9, 10) {
                out.extend_from_slice(rng.pick(&["0", "1", "42", "43", "255", "99999", "x", ""]).as_bytes());
            }
            if rng.chance(9, 10) {
                out.push(b':');
            }
            let d = font_payload(rng, huge);
            let mut b = base64(&d);
            if rng.chance(1, 10) && !b.is_empty() {
                let i = rng.usize(b.len());
                b[i] = rng.byte();
            }
            out.extend(b);
        }
        6 => {
            // macro invocation inside DCS + junk
            out.extend_from_slice(b"1;0;0!zab\x1b[");
            out.extend_from_slice(rng.pick(&["1*z", "1", "*z", "x", "12*", "1*zq"]).as_bytes());
        }
        _ => {
            let n = rng.usize(12);
            for _ in 0..n {
                out.push(rng.byte());
            }
        }
    }
    if rng.chance(19, 20) {
        out.extend_from_slice(b"\x1b\\");
    }
}

pub fn osc(rng: &mut Rng, out: &mut Vec<u8>) {
    out.extend_from_slice(b"\x1b]");
    match rng.usize(8) {
        0 | 1 => {
            out.extend_from_slice(b"4;");
            let n = 1 + rng.usize(3);
            for _ in 0..n {
                if rng.chance(4, 5) {
                    out.extend_from_slice(rng.pick(&["0", "1", "15", "16", "255", "256", "99999999999", ""]).as_bytes());
                }
                out.push(b';');
                out.extend_from_slice(b"rgb:");
                for i in 0..3 {
                    if i > 0 {
                        out.push(b'/');
                    }
                    out.extend_from_slice(format!("{:02x}", rng.byte()).as_bytes());
                }
            }
        }
        2 | 3 => {
            out.extend_from_slice(b"8;;");
            if rng.bool() {
                out.extend_from_slice(b"http://example.com/");
                printable_run(rng, out, 5);
            }
        }
        4 => out.extend_from_slice(b"8;"),
        5 => {
            out.extend_from_slice(rng.pick(&["0;title", "8", "4", "4;", "8;;;", "99999999999;x", ";", "4;1;rgb:zz/00/00"]).as_bytes());
        }
        _ => {
            let n = rng.usize(10);
            for _ in 0..n {
                out.push(rng.byte());
            }
        }
    }
    if rng.chance(19, 20) {
        out.extend_from_slice(b"\x1b\\");
    }
}

pub fn music(rng: &mut Rng, out: &mut Vec<u8>) {
    out.extend_from_slice(b"\x1b[");
    out.push(*rng.pick(b"MN|"));
    let n = rng.usize(20);
    for _ in 0..n {
        match rng.usize(8) {
            0 => out.push(*rng.pick(b"FBNLS")),
            1 => {
                out.push(b'T');
                out.extend_from_slice(rng.pick(&["0", "32", "120", "255", "99999", "9999999999"]).as_bytes());
            }
            2 => {
                out.push(b'O');
                out.push(*rng.pick(b"0123456789"));
            }
            3 => {
                out.push(*rng.pick(b"CDEFGAB"));
                for _ in 0..rng.usize(4) {
                    out.push(*rng.pick(b"+#-.0123456789"));
                }
            }
            4 => {
                out.push(*rng.pick(b"LP"));
                out.extend_from_slice(rng.pick(&["", "1", "4", "64", "9999999999", "4."]).as_bytes());
            }
            5 => out.push(*rng.pick(b"<>M")),
            6 => out.push(rng.byte()),
            _ => out.push(b'>'),
        }
    }
    if rng.chance(9, 10) {
        out.push(0x0E);
    }
}

/// one ANSI token
pub fn ansi_token(rng: &mut Rng, out: &mut Vec<u8>, w: i32, h: i32, huge: bool) {
    match rng.usize(40) {
        0..=7 => printable_run(rng, out, 12),
        8..=11 => out.push(*rng.pick(&C0)),
        12 => {
            out.push(0x1b);
            out.push(*rng.pick(b"78cDMEH7_0Zz~ \x0c\x07\x08\x09\x7f\x1b\n\r\xff\x80"));
        }
        13 | 14 => sgr(rng, out),
        15..=26 => {
            // control function from the table, 0..3 parameters
            let fin = *rng.pick(CSI_FINALS);
            let np = *rng.pick(&[0usize, 1, 1, 1, 2, 2, 3, 4, 5, 6]);
            let params: Vec<Option<i64>> = (0..np).map(|_| boundary(rng, w, h, huge)).collect();
            let inter = if rng.chance(1, 6) { *rng.pick(&[" ", "$", "*"]) } else { "" };
            let prefix = if rng.chance(1, 10) { *rng.pick(&["?", "=", "!", "<"]) } else { "" };
            csi(out, prefix, &params, inter, fin);
        }
        27 => {
            // any final byte x any intermediate
            let fin = 0x40 + rng.usize(0x3F) as u8;
            let np = rng.usize(7);
            let params: Vec<Option<i64>> = (0..np).map(|_| boundary(rng, w, h, huge)).collect();
            let inter = *rng.pick(&CSI_INTERMEDIATES);
            if matches!(inter, "?" | "=" | "!" | "<") {
                csi(out, inter, &params, "", fin);
            } else {
                csi(out, "", &params, inter, fin);
            }
        }
        28 => {
            // specific multi-parameter functions
            match rng.usize(8) {
                0 => {
                    // DECFRA
                    let ch = *rng.pick(&[32i64, 65, 0, 255, 0xD800, 0xDFFF, 0x10FFFF, 0x110000, 2_147_483_647]);
                    let p: Vec<Option<i64>> = std::iter::once(Some(ch)).chain((0..4).map(|_| boundary(rng, w, h, false))).collect();
                    csi(out, "", &p, "$", b'x');
                }
                1 => {
                    let p: Vec<Option<i64>> = (0..4).map(|_| boundary(rng, w, h, false)).collect();
                    csi(out, "", &p, "$", *rng.pick(b"z{"));
                }
                2 => {
                    let p: Vec<Option<i64>> = (0..6).map(|_| boundary(rng, w, h, false)).collect();
                    csi(out, "", &p, "*", b'y');
                }
                3 => {
                    // margins
                    let p: Vec<Option<i64>> = (0..rng.usize(5)).map(|_| boundary(rng, w, h, false)).collect();
                    csi(out, "", &p, "", b'r');
                }
                4 => {
                    out.extend_from_slice(b"\x1b[?69h");
                    let p: Vec<Option<i64>> = (0..rng.usize(3)).map(|_| boundary(rng, w, h, false)).collect();
                    csi(out, "", &p, "", b's');
                }
                5 => {
                    let p = [Some(rng.range(0, 3)), boundary(rng, w, h, false)];
                    csi(out, "=", &p, "", b'm');
                }
                6 => {
                    let p = [Some(*rng.pick(&[0i64, 1, 2])), Some(rng.range(0, 300)), Some(rng.range(0, 300)), Some(rng.range(0, 300))];
                    csi(out, "", &p, "", b't');
                }
                _ => {
                    let p = [boundary(rng, w, h, false), Some(rng.range(0, 50))];
                    csi(out, "", &p, " ", b'D');
                }
            }
        }
        29 => {
            // modes
            let n = *rng.pick(&[4i64, 6, 7, 25, 33, 35, 69, 9, 1000, 1006, 1016, 5, 99]);
            let fin = *rng.pick(b"hl");
            if rng.chance(3, 4) {
                csi(out, "?", &[Some(n)], "", fin);
            } else {
                csi(out, "", &[Some(*rng.pick(&[4i64, 20, 0]))], "", fin);
            }
        }
        30 | 31 => dcs(rng, out, huge),
        32 | 33 => osc(rng, out),
        34 => {
            out.extend_from_slice(b"\x1b_");
            printable_run(rng, out, 8);
            if rng.chance(9, 10) {
                out.extend_from_slice(b"\x1b\\");
            }
        }
        35 => music(rng, out),
        36 => {
            // macro invoke
            csi(out, "", &[Some(*rng.pick(&[0i64, 1, 2, 3, 63, 64, 1000]))], "*", b'z');
        }
        37 => {
            // reports
            let t = *rng.pick(&["\x1b[5n", "\x1b[6n", "\x1b[255n", "\x1b[?62n", "\x1b[?63;1n", "\x1b[=1n", "\x1b[=2n", "\x1b[=3n", "\x1b[c", "\x1b[<0c", "\x1b[2$w", "\x1b[0;0;0;0;0;0*y", "\x1b[!p", "\x1b[8;25;80t", "\x1b[8;0;0t"]);
            out.extend_from_slice(t.as_bytes());
        }
        38 => {
            // truncated / interrupted sequence
            let mut tmp = Vec::new();
            csi(&mut tmp, "", &[boundary(rng, w, h, huge), boundary(rng, w, h, huge)], "", *rng.pick(CSI_FINALS));
            let cut = 1 + rng.usize(tmp.len());
            out.extend_from_slice(&tmp[..cut]);
        }
        _ => {
            let n = 1 + rng.usize(4);
            for _ in 0..n {
                out.push(rng.byte());
            }
        }
    }
}

pub fn emu_token(rng: &mut Rng, emu: &str, out: &mut Vec<u8>, w: i32, h: i32, huge: bool) {
    match emu {
        "avatar" => match rng.usize(10) {
            0 => {
                out.push(0x16);
                out.push(*rng.pick(&[1u8, 2, 3, 4, 5, 6, 7, 8, 9, 0, 255, 0x16]));
                if rng.bool() {
                    out.push(rng.byte());
                }
                if rng.bool() {
                    out.push(rng.byte());
                }
            }
            1 => {
                out.push(0x19);
                out.push(rng.byte());
                out.push(*rng.pick(&[0u8, 1, 2, 79, 80, 81, 255, 0x19, 0x16]));
            }
            2 => out.push(0x0C),
            3 => {
                out.push(0x16);
                out.push(8);
                out.push(*rng.pick(&[0u8, 1, 24, 25, 26, 80, 255]));
                out.push(*rng.pick(&[0u8, 1, 79, 80, 81, 255]));
            }
            _ => ansi_token(rng, out, w, h, huge),
        },
        "pcboard" => match rng.usize(8) {
            0 => {
                out.extend_from_slice(b"@X");
                out.push(*rng.pick(b"0123456789ABCDEFabcdefGz@"));
                out.push(*rng.pick(b"0123456789ABCDEFabcdefGz@"));
            }
            1 => {
                out.push(b'@');
                printable_run(rng, out, 6);
                if rng.bool() {
                    out.push(b'@');
                }
            }
            _ => ansi_token(rng, out, w, h, huge),
        },
        "ctrla" => match rng.usize(6) {
            0 | 1 => {
                out.push(1);
                out.push(*rng.pick(b"L'J><|]AHIENZKBGCRMYW04261537xq\x01\x80\xff\xc8"));
            }
            _ => ansi_token(rng, out, w, h, huge),
        },
        "renegade" => match rng.usize(6) {
            0 | 1 => {
                out.push(b'|');
                out.push(*rng.pick(b"01234x|"));
                out.push(*rng.pick(b"0123456789x|"));
            }
            _ => ansi_token(rng, out, w, h, huge),
        },
        "petscii" | "atascii" | "viewdata" | "mode7" | "ascii" => match rng.usize(8) {
            0 => {
                out.push(0x1b);
                out.push(rng.byte());
            }
            1 => {
                let n = 1 + rng.usize(100);
                let b = rng.byte();
                for _ in 0..n {
                    out.push(b);
                }
            }
            2 => printable_run(rng, out, 50),
            3 => out.push(*rng.pick(&C0)),
            _ => {
                let n = 1 + rng.usize(6);
                for _ in 0..n {
                    out.push(rng.byte());
                }
            }
        },
        _ => ansi_token(rng, out, w, h, huge),
    }
}

/// a stream of roughly `target` bytes
pub fn token_stream(rng: &mut Rng, emu: &str, w: i32, h: i32, target: usize, huge: bool) -> Vec<u8> {
    let mut out = Vec::new();
    while out.len() < target {
        emu_token(rng, emu, &mut out, w, h, huge);
    }
    out
}

/// state-setting prefixes ("screen states")
pub fn state_prefix(rng: &mut Rng, emu: &str, w: i32, h: i32) -> Vec<u8> {
    let mut out = Vec::new();
    let ansi_like = matches!(emu, "ansi" | "ansi-bs" | "avatar" | "pcboard" | "ctrla" | "renegade");
    let n = rng.usize(4);
    for _ in 0..n {
        match rng.usize(12) {
            0 => {
                // fill the screen and push rows into the scrollback
                let rows = h as usize + rng.usize(h as usize + 3);
                for i in 0..rows {
                    out.extend_from_slice(format!("row{i}").as_bytes());
                    if emu == "petscii" {
                        out.push(0x0D);
                    } else if emu == "atascii" {
                        out.push(0x9B);
                    } else {
                        out.extend_from_slice(b"\r\n");
                    }
                }
            }
            1 => {
                // a few full-width lines
                for _ in 0..(1 + rng.usize(3)) {
                    for _ in 0..w {
                        out.push(b'x');
                    }
                }
            }
            2 if ansi_like => {
                // margins, possibly degenerate or inverted
                let t = rng.range(0, h as i64 + 2);
                let b = rng.range(0, h as i64 + 2);
                out.extend_from_slice(format!("\x1b[{t};{b}r").as_bytes());
            }
            3 if ansi_like => {
                let l = rng.range(0, w as i64 + 2);
                let r = rng.range(0, w as i64 + 2);
                out.extend_from_slice(format!("\x1b[?69h\x1b[{l};{r}s").as_bytes());
            }
            4 if ansi_like => out.extend_from_slice(b"\x1b[4h"),
            5 if ansi_like => out.extend_from_slice(b"\x1b[?7l"),
            6 if ansi_like => out.extend_from_slice(b"\x1b[3g"),
            7 if ansi_like => {
                // saved cursor under other margins
                let y = rng.range(1, h as i64);
                let x = rng.range(1, w as i64);
                out.extend_from_slice(format!("\x1b[{y};{x}H\x1b[s\x1b7").as_bytes());
            }
            8 if ansi_like => out.extend_from_slice(b"\x1b[?33h\x1b[5;1;44m"),
            9 if ansi_like => {
                let y = rng.range(1, h as i64 + 1);
                let x = rng.range(1, w as i64 + 1);
                out.extend_from_slice(format!("\x1b[{y};{x}H").as_bytes());
            }
            10 if ansi_like => {
                let a = rng.range(0, 3);
                let b = rng.range(0, w.max(h) as i64 + 1);
                out.extend_from_slice(format!("\x1b[={a};{b}m").as_bytes());
            }
            _ => {
                for _ in 0..rng.usize(2 * w as usize + 1) {
                    out.push(b'a' + rng.usize(26) as u8);
                }
            }
        }
    }
    out
}

pub fn pick_size(rng: &mut Rng, emu: &str) -> (i32, i32) {
    if emu == "viewdata" || emu == "mode7" {
        return (40, 24);
    }
    match rng.usize(10) {
        0 => (1, 1),
        1 => (1, 60),
        2 => (132, 1),
        3 => (2, 2),
        4 => (40, 24),
        5 | 6 => (80, 25),
        7 => (132, 60),
        _ => (rng.range(1, 132) as i32, rng.range(1, 60) as i32),
    }
}
