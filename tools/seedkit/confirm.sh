#!/bin/bash
# tools/seedkit/confirm.sh <PROP> <variant>   e.g. C01 e
# Re-confirms a seeded change a sub-agent left in /tmp/seed/<PROP>/OUT/<variant>/ in that scratch worktree:
#   tree reset to HEAD -> demo passes; patch applies; builds; demo fails; pinned tests: 227 pass, none of the baseline missing.
# Appends one line to /tmp/seedkit/confirm_<PROP>.log (read by tools/import_seeded.py).
set -u
prop=$1; v=$2
wt=/tmp/seed/$prop
out=$wt/OUT/$v
mkdir -p /tmp/seedkit
log=/tmp/seedkit/confirm_$prop.log
export CARGO_NET_OFFLINE=true
unset RUSTFLAGS
cd $wt || exit 2
git checkout -q -- . ; git clean -q -fd -e OUT -e target >/dev/null 2>&1
head=$(git rev-parse --short HEAD)
repo_head=$(git -C /repo rev-parse --short HEAD)
mkdir -p tests; cp $out/demo.rs tests/seed_demo.rs
cargo test --offline --test seed_demo >/tmp/seedkit/$prop$v.clean.log 2>&1; demo_clean=$?
git apply --check $out/patch.diff; applies=$?
git apply $out/patch.diff
changed=$(git diff --numstat -- src | awk '{s+=$1+$2} END{print s+0}')
cargo build --offline >/tmp/seedkit/$prop$v.build.log 2>&1; build=$?
cargo test --offline --test seed_demo >/tmp/seedkit/$prop$v.patched.log 2>&1; demo_patched=$?
rm -f tests/seed_demo.rs
cargo test --workspace --no-fail-fast --offline >/tmp/seedkit/$prop$v.tests.log 2>&1
res=$(python3 - /tmp/seedkit/$prop$v.tests.log <<'PY'
import json,re,sys
passed=set()
for line in open(sys.argv[1],errors='replace'):
    m=re.match(r"^test (\S+) \.\.\. (ok|FAILED)",line)
    if m and m.group(2)=='ok': passed.add('icy_engine::'+m.group(1))
base=set(json.load(open('/root/.vp/BASELINE.json'))['stable_pass'])
print(f"passed={len(passed)} baseline_missing={len(base-passed)}")
PY
)
git checkout -q -- . ; git clean -q -fd -e OUT -e target >/dev/null 2>&1
line="$prop/$v: head=$head repo_head=$repo_head applies=$applies build=$build demo_clean_exit=$demo_clean demo_patched_exit=$demo_patched changed_lines=$changed $res"
echo "$line" | tee -a $log
