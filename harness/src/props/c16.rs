//! C16 — palette indices are stable and palette files round-trip.
use icy_engine::{Color, Palette, PaletteFormat};
use serde::{Deserialize, Serialize};
use serde_json::{json, Value};

use crate::ctx::Ctx;
use crate::mon::{guarded, Budgets, Outcome};
use crate::rng::Rng;
use crate::shrink::shrink_list;
use crate::Prop;

#[derive(Clone, Debug, Serialize, Deserialize, PartialEq)]
pub enum Op {
    Insert(u8, u8, u8),
    InsertColor(u8, u8, u8),
    /// re-insert the colour currently at index i
    InsertExisting(u32),
    SetRgb(u32, u8, u8, u8),
    Set(u32, u8, u8, u8),
    Push(u8, u8, u8),
    Resize(u32),
    Get(u32),
}

#[derive(Clone, Debug, Serialize, Deserialize)]
pub enum Case16 {
    Ops { start: Vec<(u8, u8, u8)>, ops: Vec<Op> },
    File { fmt: String, colors: Vec<(u8, u8, u8)>, title: String, author: String, description: String, names: Vec<Option<String>> },
    /// all 6-bit colours with red = r (64*64 colours)
    SixBit { r: u8 },
}

fn fmt_by_name(n: &str) -> PaletteFormat {
    match n {
        "hex" => PaletteFormat::Hex,
        "pal" => PaletteFormat::Pal,
        "gpl" => PaletteFormat::Gpl,
        "ice" => PaletteFormat::Ice,
        _ => PaletteFormat::Txt,
    }
}

const FMTS: [&str; 5] = ["hex", "pal", "gpl", "ice", "txt"];

fn pal_from(colors: &[(u8, u8, u8)]) -> Palette {
    let mut p = Palette::new();
    p.clear();
    for (i, (r, g, b)) in colors.iter().enumerate() {
        // some entries carry a name (palettes loaded from ICE / GPL files do): a name is not part of the colour
        let mut c = Color::new(*r, *g, *b);
        if i % 3 == 1 {
            c.name = Some(format!("colour {i}"));
        }
        p.push(c);
    }
    p
}

fn snapshot(p: &Palette) -> Vec<(u8, u8, u8)> {
    (0..p.len() as u32).map(|i| p.get_rgb(i)).collect()
}

/// runs the ops on the real palette and a Vec model in lock-step; returns the first disagreement
fn run_ops(start: &[(u8, u8, u8)], ops: &[Op]) -> Option<(usize, String)> {
    let mut p = pal_from(start);
    let mut model: Vec<(u8, u8, u8)> = start.to_vec();
    for (step, op) in ops.iter().enumerate() {
        let before = snapshot(&p);
        if before != model {
            return Some((step, format!("palette contents differ from the model before op {step}: {} vs {} colours", before.len(), model.len())));
        }
        match op {
            Op::Insert(r, g, b) | Op::InsertColor(r, g, b) => {
                let idx = if matches!(op, Op::Insert(..)) {
                    p.insert_color_rgb(*r, *g, *b)
                } else {
                    let mut c = Color::new(*r, *g, *b);
                    if step % 2 == 1 {
                        c.name = Some(format!("inserted at {step}"));
                    }
                    p.insert_color(c)
                };
                let want = (*r, *g, *b);
                let existing = model.iter().position(|c| *c == want);
                if let Some(e) = existing {
                    if p.get_rgb(idx) != want {
                        return Some((step, format!("insert of present colour {want:?} returned index {idx} which resolves to {:?}", p.get_rgb(idx))));
                    }
                    if idx as usize >= model.len() {
                        return Some((step, format!("insert of present colour {want:?} (at {e}) returned a new index {idx}")));
                    }
                } else {
                    if idx as usize != model.len() {
                        // a new colour may reuse no old index
                        if (idx as usize) < model.len() {
                            return Some((step, format!("insert of new colour {want:?} returned existing index {idx}")));
                        }
                    }
                    model.push(want);
                }
                if p.get_rgb(idx) != want {
                    return Some((step, format!("returned index {idx} resolves to {:?}, not to the inserted {want:?}", p.get_rgb(idx))));
                }
                // every previously valid index resolves as before
                for (i, c) in before.iter().enumerate() {
                    if p.get_rgb(i as u32) != *c {
                        return Some((step, format!("index {i} resolved to {c:?} before the insert and to {:?} after", p.get_rgb(i as u32))));
                    }
                }
            }
            Op::InsertExisting(i) => {
                if model.is_empty() {
                    continue;
                }
                let i = *i as usize % model.len();
                let want = model[i];
                let idx = p.insert_color_rgb(want.0, want.1, want.2);
                if idx as usize >= model.len() || p.get_rgb(idx) != want {
                    return Some((step, format!("re-inserting the colour of index {i} ({want:?}) returned {idx} -> {:?}", p.get_rgb(idx))));
                }
                if p.len() != model.len() {
                    return Some((step, format!("re-inserting a present colour changed the palette length {} -> {}", model.len(), p.len())));
                }
            }
            Op::SetRgb(i, r, g, b) | Op::Set(i, r, g, b) => {
                let i = *i as usize % (model.len() + 3);
                if matches!(op, Op::SetRgb(..)) {
                    p.set_color_rgb(i as u32, *r, *g, *b);
                } else {
                    p.set_color(i as u32, Color::new(*r, *g, *b));
                }
                if model.len() <= i {
                    model.resize(i + 1, (0, 0, 0));
                }
                model[i] = (*r, *g, *b);
            }
            Op::Push(r, g, b) => {
                let mut c = Color::new(*r, *g, *b);
                if step % 3 == 0 {
                    c.name = Some(format!("pushed at {step}"));
                }
                p.push(c);
                model.push((*r, *g, *b));
            }
            Op::Resize(n) => {
                let n = *n as usize % 320;
                // growing fills up to 16 with the DOS colours first: keep the model out of that corner
                if n >= model.len() && model.len() < 16 {
                    continue;
                }
                p.resize(n);
                model.resize(n, (0, 0, 0));
            }
            Op::Get(i) => {
                let i = *i as usize % (model.len() + 2);
                let got = p.get_rgb(i as u32);
                let want = model.get(i).copied().unwrap_or((0, 0, 0));
                if got != want {
                    return Some((step, format!("get_rgb({i}) = {got:?}, model says {want:?}")));
                }
            }
        }
    }
    if snapshot(&p) != model {
        return Some((ops.len(), "palette contents differ from the model at the end".into()));
    }
    None
}

fn gen_color(rng: &mut Rng, small: bool) -> (u8, u8, u8) {
    if small {
        (*rng.pick(&[0u8, 85, 170, 255]), *rng.pick(&[0u8, 255]), *rng.pick(&[0u8, 1]))
    } else {
        (rng.byte(), rng.byte(), rng.byte())
    }
}

fn gen_text(rng: &mut Rng) -> String {
    match rng.usize(8) {
        0 | 1 => String::new(),
        2 => "My Palette".into(),
        3 => "12 34 56".into(),
        4 => "#ff00aa ; semi".into(),
        5 => " leading and trailing ".into(),
        6 => "aabbcc".into(),
        _ => (0..rng.usize(20)).map(|_| *rng.pick(&['a', 'Z', '0', '9', ' ', '#', ';', ':', 'f', '_'])).collect(),
    }
}

#[derive(Default)]
pub struct C16 {}

impl C16 {
    fn case_for(&self, ctx: &Ctx, k: u64) -> Case16 {
        if k < 64 {
            return Case16::SixBit { r: k as u8 };
        }
        let mut rng = ctx.rng(k);
        if rng.chance(1, 2) {
            let n0 = match rng.usize(5) {
                0 => 0,
                1 => 16,
                2 => rng.usize(301),
                _ => rng.usize(40),
            };
            let small = rng.bool();
            let mut start: Vec<(u8, u8, u8)> = Vec::new();
            for _ in 0..n0 {
                start.push(gen_color(&mut rng, small));
            }
            let nops = 1 + rng.usize(40);
            let ops = (0..nops)
                .map(|_| {
                    let (r, g, b) = gen_color(&mut rng, small);
                    match rng.usize(12) {
                        0 | 1 | 2 => Op::Insert(r, g, b),
                        3 => Op::InsertColor(r, g, b),
                        4 | 5 => Op::InsertExisting(rng.next_u32()),
                        6 => Op::SetRgb(rng.next_u32(), r, g, b),
                        7 => Op::Set(rng.next_u32(), r, g, b),
                        8 => Op::Push(r, g, b),
                        9 => Op::Resize(rng.next_u32()),
                        _ => Op::Get(rng.next_u32()),
                    }
                })
                .collect();
            Case16::Ops { start, ops }
        } else {
            let n = match rng.usize(6) {
                0 => 0,
                1 => 1,
                2 => 16,
                3 => 256,
                _ => rng.usize(257),
            };
            let mut colors: Vec<(u8, u8, u8)> = (0..n).map(|_| gen_color(&mut rng, false)).collect();
            // "arbitrary RGB colours" includes the ones an importer might take for padding or for a duplicate: black or white
            // at the end or at the start, the same colour twice in a row, a palette of one colour repeated
            if n > 0 && rng.chance(1, 4) {
                let c = *rng.pick(&[(0u8, 0u8, 0u8), (255, 255, 255), (0, 0, 0), colors[0]]);
                let m = 1 + rng.usize(n.min(4));
                match rng.usize(4) {
                    0 | 1 => colors[n - m..].iter_mut().for_each(|x| *x = c),
                    2 => colors[..m].iter_mut().for_each(|x| *x = c),
                    _ => colors.iter_mut().for_each(|x| *x = c),
                }
            }
            let names = (0..n).map(|_| if rng.chance(1, 4) { Some(gen_text(&mut rng)) } else { None }).collect();
            Case16::File {
                fmt: FMTS[rng.usize(5)].into(),
                colors,
                title: gen_text(&mut rng),
                author: gen_text(&mut rng),
                description: gen_text(&mut rng),
                names,
            }
        }
    }

    fn exec(&mut self, ctx: &mut Ctx, case: &Case16) {
        let c = case.clone();
        let (out, _m) = guarded(Budgets::default(), move || -> Option<(String, Value)> {
            match &c {
                Case16::SixBit { r } => {
                    for g in 0..64u8 {
                        for b in 0..64u8 {
                            let p = Palette::from_63(&[*r, g, b]);
                            let back = p.as_vec_63();
                            if back != vec![*r, g, b] {
                                return Some(("mismatch|6bit|as_vec_63(from_63(c)) != c".into(), json!({"six_bit": [r, g, b], "expanded": p.get_rgb(0), "back": back})));
                            }
                            let p2 = Palette::from_63(&back);
                            if p2.get_rgb(0) != p.get_rgb(0) {
                                return Some(("mismatch|6bit|from_63 not idempotent".into(), json!({"six_bit": [r, g, b]})));
                            }
                        }
                    }
                    // the EGA codec of ADF: 16 colours in 64 six-bit slots
                    let cols: Vec<(u8, u8, u8)> = (0..16u8).map(|i| ((*r << 2 | *r >> 4), (i * 4) << 2 | (i * 4) >> 4, ((63 - i) << 2) | ((63 - i) >> 4))).collect();
                    let p = pal_from(&cols);
                    let ega = icy_engine::to_ega_data(&p);
                    let back = icy_engine::from_ega_data(&ega);
                    for i in 0..16u32 {
                        if back.get_rgb(i) != p.get_rgb(i) {
                            return Some(("mismatch|ega|from_ega_data(to_ega_data(p)) != p".into(), json!({"index": i, "colour": p.get_rgb(i), "back": back.get_rgb(i)})));
                        }
                    }
                    let ega2 = icy_engine::to_ega_data(&back);
                    if ega2 != ega {
                        return Some(("mismatch|ega|not idempotent".into(), json!({"r": r})));
                    }
                    None
                }
                Case16::Ops { start, ops } => run_ops(start, ops).map(|(step, what)| {
                    let kind = match ops.get(step) {
                        Some(Op::Insert(..)) | Some(Op::InsertColor(..)) => "insert",
                        Some(Op::InsertExisting(..)) => "insert-existing",
                        Some(Op::SetRgb(..)) | Some(Op::Set(..)) => "set",
                        Some(Op::Push(..)) => "push",
                        Some(Op::Resize(..)) => "resize",
                        Some(Op::Get(..)) => "get",
                        None => "end",
                    };
                    (format!("mismatch|palette-ops|{kind}"), json!({"step": step, "what": what}))
                }),
                Case16::File { fmt, colors, title, author, description, names } => {
                    let mut p = pal_from(colors);
                    p.title = title.clone();
                    p.author = author.clone();
                    p.description = description.clone();
                    if fmt == "ice" {
                        // colour names exist in the ICE format only
                        let mut q = Palette::new();
                        q.clear();
                        for (i, (r, g, b)) in colors.iter().enumerate() {
                            let mut c = Color::new(*r, *g, *b);
                            c.name = names.get(i).cloned().flatten().filter(|n| !n.is_empty());
                            q.push(c);
                        }
                        q.title = title.clone();
                        q.author = author.clone();
                        q.description = description.clone();
                        p = q;
                    }
                    let f = fmt_by_name(fmt);
                    let bytes = p.export_palette(&f);
                    match Palette::load_palette(&f, &bytes) {
                        Ok(back) => {
                            let a = snapshot(&p);
                            let b = snapshot(&back);
                            if a != b {
                                let first = a.iter().zip(b.iter()).position(|(x, y)| x != y).unwrap_or(a.len().min(b.len()));
                                let cause = if b.len() != a.len() { "colour-count" } else { "colour-value" };
                                let feat = format!("title={} description={} names={}", !title.is_empty(), !description.is_empty(), names.iter().any(|n| n.is_some()));
                                return Some((
                                    format!("mismatch|palette-file|{fmt}|{cause}|{feat}"),
                                    json!({"format": fmt, "saved_colours": a.len(), "loaded_colours": b.len(), "first_difference_at": first,
                                           "saved": a.get(first), "loaded": b.get(first), "file_head": String::from_utf8_lossy(&bytes[..bytes.len().min(300)])}),
                                ));
                            }
                            None
                        }
                        Err(e) => Some((format!("mismatch|palette-file|{fmt}|load-error"), json!({"format": fmt, "error": e.to_string(), "file_head": String::from_utf8_lossy(&bytes[..bytes.len().min(300)])}))),
                    }
                }
            }
        });
        match out {
            Outcome::Done(res) => {
                match case {
                    Case16::SixBit { r } => {
                        ctx.count("six_bit_colours_checked", 4096);
                        ctx.fp(0x6b17_0000 + *r as u64);
                    }
                    Case16::Ops { start, ops } => {
                        ctx.count("op_histories", 1);
                        ctx.count("ops_executed", ops.len() as u64);
                        ctx.fp(crate::rng::mix(start.len() as u64, crate::rng::hash_str(&format!("{:?}", ops.iter().map(std::mem::discriminant).collect::<Vec<_>>()))));
                    }
                    Case16::File { fmt, colors, title, description, .. } => {
                        ctx.count(&format!("files_{fmt}"), 1);
                        ctx.fp(crate::rng::mix(crate::rng::hash_str(fmt), (colors.len() as u64) << 8 | (title.is_empty() as u64) << 1 | description.is_empty() as u64));
                    }
                }
                if ctx.want_sample() && ctx.evaluations % 501 == 100 {
                    ctx.sample(serde_json::to_value(case).unwrap());
                }
                if let Some((key, detail)) = res {
                    // shrink op histories
                    let mut used = case.clone();
                    if let Case16::Ops { start, ops } = case {
                        if !ctx.replay && ctx.seen(&key) == 0 {
                            let s = shrink_list(ops, 200, |cand| run_ops(start, cand).is_some());
                            let st = shrink_list(start, 100, |cand| run_ops(cand, &s).is_some());
                            used = Case16::Ops { start: st, ops: s };
                        }
                    }
                    ctx.violation(&key, detail, serde_json::to_value(&used).unwrap());
                }
            }
            Outcome::Panicked(p) => ctx.panic_violation("palette", &p, serde_json::to_value(case).unwrap()),
        }
    }
}

impl Prop for C16 {
    fn id(&self) -> &'static str {
        "C16"
    }
    fn rule(&self) -> &'static str {
        "(ops) seeded sequences of insert_color / insert_color_rgb / re-insert of a present colour / set_color(_rgb) / push / resize / get_rgb on palettes of 0..=300 colours run in lock-step with a Vec<(u8,u8,u8)> reference model (every third start colour, every third pushed and every second inserted Color carries a name: names are not part of a colour); after every insert: the returned index resolves to the colour, every index valid before resolves as before, a present colour returns an existing index. (file) palettes of 0..=256 random colours - one in four with black, white or its first colour repeated at the end, at the start or throughout - with empty / non-empty title, author, description (digits, '#', ';', blanks) and optional colour names exported to Hex, JASC PAL, GIMP GPL, ICE and Paint.NET TXT and imported again: same RGB sequence. (6bit) all 64^3 six-bit colours: as_vec_63(from_63(c)) == c and from_63 idempotent; ADF EGA codec round trip. distinct_nontrivial = distinct (op-kind sequence, start size) / (format, size, title/description present) / 6-bit red values"
    }
    fn meta(&self, ctx: &Ctx) -> Value {
        json!({"floor_evaluations": 2000, "floor_distinct": ctx.tier.pick(1000u64, 5000u64),
               "assumptions": ["Palette::resize growing from fewer than 16 colours pre-fills the DOS colours and is not modelled (skipped)"]})
    }
    fn total(&mut self, ctx: &Ctx) -> u64 {
        64 + ctx.tier.pick(240_000, 1_000_000)
    }
    fn run_case(&mut self, ctx: &mut Ctx, k: u64) {
        let case = self.case_for(ctx, k);
        ctx.begin(k);
        self.exec(ctx, &case);
    }
    fn replay(&mut self, ctx: &mut Ctx, case: &Value) {
        let c: Case16 = serde_json::from_value(case.clone()).expect("c16 case");
        ctx.begin(0);
        self.exec(ctx, &c);
    }
}
