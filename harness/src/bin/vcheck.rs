//! Worker / replay binary. The supervisor is /verif/check (python).
use std::fs::OpenOptions;

use icyverif::ctx::{Ctx, Tier};
use icyverif::mon;

#[global_allocator]
static ALLOC: mon::CountingAlloc = mon::CountingAlloc;

fn arg<'a>(args: &'a [String], name: &str) -> Option<&'a str> {
    args.iter().position(|a| a == name).and_then(|i| args.get(i + 1)).map(|s| s.as_str())
}

fn main() {
    let args: Vec<String> = std::env::args().collect();
    if args.len() < 3 {
        eprintln!("usage: vcheck worker|replay|count <PROP> [--tier quick|thorough] [--seed N] [--shard i] [--nshards n] [--start k] [--journal path] [--case file]");
        std::process::exit(2);
    }
    let mode = args[1].as_str();
    let prop_id = args[2].as_str();
    let tier = match arg(&args, "--tier").unwrap_or("quick") {
        "thorough" => Tier::Thorough,
        _ => Tier::Quick,
    };
    let seed: u64 = arg(&args, "--seed").and_then(|s| s.parse().ok()).unwrap_or(1);
    let shard: u64 = arg(&args, "--shard").and_then(|s| s.parse().ok()).unwrap_or(0);
    let nshards: u64 = arg(&args, "--nshards").and_then(|s| s.parse().ok()).unwrap_or(1);
    let start: u64 = arg(&args, "--start").and_then(|s| s.parse().ok()).unwrap_or(0);
    let plain = cfg!(not(debug_assertions));
    let journal = arg(&args, "--journal").map(|p| OpenOptions::new().create(true).append(true).open(p).expect("journal"));

    mon::install_panic_hook();
    icyverif::stream::install_accounting_gate();
    // i18n loader reads the locale once; touch it outside of any case
    let _ = icy_engine::Buffer::new((1, 1));

    let Some(mut prop) = icyverif::props::by_id(if mode == "miri-inputs" { "C19" } else { prop_id }) else {
        eprintln!("unknown property {prop_id}");
        std::process::exit(2);
    };
    let mut ctx = Ctx::new(prop_id, tier, seed, shard, nshards, plain, journal);
    match mode {
        "miri-inputs" => {
            // inputs for `vmiri icy <dir>`
            let dir = std::path::PathBuf::from(prop_id);
            std::fs::create_dir_all(&dir).expect("mkdir");
            let mut buf = icy_engine::Buffer::new((3, 1));
            buf.layers[0].set_char((0, 0), icy_engine::AttributedChar::new('\u{1F600}', icy_engine::TextAttribute::default()));
            buf.layers[0].properties.title = "t\u{2603}".into();
            let mut o = icy_engine::SaveOptions::new();
            o.lossles_output = true;
            let bytes = buf.to_bytes("icy", &o).expect("save icy");
            std::fs::write(dir.join("icy_ok.bin"), &bytes).expect("write");
            let mut chunks = icyverif::files::png_split(&bytes).expect("png");
            for c in chunks.iter_mut() {
                if let Some((kw, mut payload)) = icyverif::files::ztxt_decode(c) {
                    if kw == "LAYER_0" {
                        payload[4] = 0xFF; // first title byte: invalid UTF-8
                        let title_len = u32::from_le_bytes(payload[0..4].try_into().unwrap()) as usize;
                        let cell = 4 + title_len + 1 + 4 + 1 + 4 + 4 + 1 + 8 + 8 + 2 + 8;
                        if cell + 6 <= payload.len() {
                            payload[cell + 2..cell + 6].copy_from_slice(&0xD800u32.to_le_bytes());
                        }
                        *c = icyverif::files::ztxt_encode(&kw, &payload);
                    }
                }
            }
            std::fs::write(dir.join("icy_bad.bin"), icyverif::files::png_join(&chunks)).expect("write");
            println!("ok");
        }
        "corpus" => {
            // diagnostic: list the seed files the loader checks start from
            for s in icyverif::files::build_corpus() {
                println!("{:6} {:5} {:8} {}", s.api, s.ext, s.bytes.len(), s.name);
            }
            for r in icyverif::files::corpus_refusals() {
                println!("REFUSED {r}");
            }
        }
        "count" => {
            let mut info = prop.meta(&ctx);
            if !info.is_object() {
                info = serde_json::json!({});
            }
            info["total"] = serde_json::json!(prop.total(&ctx));
            info["rule"] = serde_json::json!(prop.rule());
            println!("{info}");
        }
        "worker" => {
            let total = prop.total(&ctx);
            let limit: u64 = arg(&args, "--limit").and_then(|s| s.parse().ok()).unwrap_or(u64::MAX);
            let mut k = start;
            // first k >= start with k % nshards == shard
            if k % nshards != shard {
                k += (shard + nshards - k % nshards) % nshards;
            }
            let mut done = 0u64;
            ctx.start_marker();
            let mut last_cp = std::time::Instant::now();
            while k < total && done < limit {
                prop.run_case(&mut ctx, k);
                k += nshards;
                done += 1;
                if done % 256 == 0 && last_cp.elapsed().as_secs() >= 5 {
                    ctx.checkpoint();
                    last_cp = std::time::Instant::now();
                }
            }
            ctx.finish();
        }
        "replay" => {
            let path = arg(&args, "--case").expect("--case");
            let text = std::fs::read_to_string(path).expect("read case");
            let v: serde_json::Value = serde_json::from_str(&text).expect("json");
            ctx.replay = true;
            if let Some(s) = v.get("seed").and_then(|s| s.as_u64()) {
                ctx.seed = s;
            }
            if let Some(t) = v.get("tier").and_then(|s| s.as_str()) {
                ctx.tier = if t == "thorough" { Tier::Thorough } else { Tier::Quick };
            }
            let _ = prop.total(&ctx);
            let case = v.get("case").cloned().unwrap_or(serde_json::Value::Null);
            if case.is_null() {
                // no serialised case (the worker died in it): regenerate case k from (seed, tier)
                let k = v.get("k").and_then(|k| k.as_u64()).expect("replay file needs case or k");
                prop.run_case(&mut ctx, k);
            } else {
                prop.replay(&mut ctx, &case);
            }
            ctx.finish();
        }
        _ => {
            eprintln!("unknown mode {mode}");
            std::process::exit(2);
        }
    }
}
