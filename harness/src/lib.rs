pub mod ctx;
pub mod mon;
pub mod rng;
pub mod shrink;
pub mod stream;
pub mod gen_stream;
pub mod doc;
pub mod files;
pub mod picture;
pub mod props;

use ctx::Ctx;
use serde_json::Value;

/// One property check. Case `k` is a pure function of (seed, tier, k) so that a
/// worker that died can be restarted behind the fatal case.
pub trait Prop {
    fn id(&self) -> &'static str;
    /// number of cases of this run (global, before sharding)
    fn total(&mut self, ctx: &Ctx) -> u64;
    fn run_case(&mut self, ctx: &mut Ctx, k: u64);
    /// re-execute a serialised case (from a violation record) under the same monitors
    fn replay(&mut self, ctx: &mut Ctx, case: &Value);
    /// the rule for "distinct non-trivial" (goes into the evidence)
    fn rule(&self) -> &'static str;
    /// extra keys for the supervisor: floor_evaluations, floor_distinct, exhaustive, plain_pass, assumptions
    fn meta(&self, _ctx: &Ctx) -> Value {
        serde_json::json!({})
    }
}
