#!/bin/bash
# tools/seedkit/teardown.sh <PROP>... : remove the scratch worktrees with their build output
for p in "$@"; do git -C /repo worktree remove --force /tmp/seed/$p 2>/dev/null; rm -rf /tmp/seed/$p; done
git -C /repo worktree prune
